// Emits the seed-rotated harnesses selected for this run (env VERIF_SELECT: comma-separated
// names, or ALL) from rotate_table.txt, so that a quick check compiles only what it runs.
use std::io::Write;

fn main() {
    println!("cargo:rerun-if-env-changed=VERIF_SELECT");
    println!("cargo:rerun-if-changed=rotate_table.txt");
    let sel = std::env::var("VERIF_SELECT").unwrap_or_default();
    let table = std::fs::read_to_string("rotate_table.txt").unwrap_or_default();
    let all = sel == "ALL";
    let wanted: Vec<&str> = sel.split(',').filter(|x| !x.is_empty()).collect();
    let mut out = String::from("harnesses! {\n");
    for line in table.lines() {
        let parts: Vec<&str> = line.splitn(3, '|').collect();
        if parts.len() != 3 {
            continue;
        }
        if all || wanted.contains(&parts[0]) {
            out.push_str(&format!("    #[kani::unwind({})] {} => {};\n", parts[1], parts[0], parts[2]));
        }
    }
    out.push_str("}\n");
    let dir = std::env::var("OUT_DIR").unwrap();
    let mut f = std::fs::File::create(std::path::Path::new(&dir).join("selected.rs")).unwrap();
    f.write_all(out.as_bytes()).unwrap();
}
