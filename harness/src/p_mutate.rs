//! C08 / C09 / C10 / C11 — mutations through the cursor and the packet object.
//! One skeleton, one concrete operation (or short program), all values of the
//! symbolic bytes and of the operation's arguments.
use crate::p_view::*;
use crate::skel::*;
use crate::spec;
use crate::src::*;
use crate::util::*;
use dnssector::*;
use std::net::{IpAddr, Ipv4Addr, Ipv6Addr};

/// index into K::RECS of the IDX-th non-OPT record of section SEC
pub fn target_of<K: Skel>(sec: u8, idx: usize) -> Option<usize> {
    let mut i = 0;
    let mut seen = 0;
    while i < K::RECS.len() {
        let r = &K::RECS[i];
        if r.section == sec && (r.rtype != spec::T_OPT || sec == 0) {
            if seen == idx {
                return Some(i);
            }
            seen += 1;
        }
        i += 1;
    }
    None
}

fn parse_ok<S: Src>(p: &[u8]) -> Result<ParsedPacket, &'static str> {
    cut_errors(2);
    let r = real_parse(p);
    match r {
        Ok(pp) => Ok(pp),
        Err(_) => Err("accepted: the skeleton is well-formed"),
    }
}

/// C08: the object's view equals a fresh parse of its bytes (fresh parse must succeed)
fn check_view(pp: &mut ParsedPacket) -> Verdict {
    vassert!(pp.packet.is_some(), "view: the object still holds a packet");
    let bytes = pp.packet().to_vec();
    cut_errors(2);
    let fresh = real_parse(&bytes);
    cut_errors(0);
    match fresh {
        Ok(mut f) => {
            view_roles(pp, &mut f)?;
            if !pp.maybe_compressed {
                let mut lay = spec::Layout::new();
                if spec::layout_of(&bytes, &mut lay) == spec::Acc::Yes {
                    vassert!(!spec::has_pointer(&bytes, &lay), "view: maybe_compressed == false only when no name holds a pointer");
                }
            }
        }
        Err(_) => vassert!(false, "view: the object's bytes are accepted by the parser"),
    }
    Ok(())
}

macro_rules! cursor_at {
    ($pp:expr, $sec:expr, $idx:expr, $it:ident, $body:block) => {{
        let mut n = 0usize;
        let mut found = false;
        let mut cur = match $sec {
            1 => $pp.into_iter_answer(),
            2 => $pp.into_iter_nameservers(),
            _ => $pp.into_iter_additional(),
        };
        while let Some(mut $it) = cur {
            if n == $idx {
                found = true;
                $body
                break;
            }
            n += 1;
            cur = $it.next();
        }
        found
    }};
}

// ------------------------------------------------------------------ TTL / address setters

/// set_rr_ttl on record IDX of section SEC with any u32: only the 4 TTL
/// bytes of that record change; the view still equals a fresh parse.
pub fn set_ttl<S: Src, K: Skel, const SEC: u8, const IDX: usize>(s: &mut S) -> Verdict {
    let p = K::build(s);
    let t = match target_of::<K>(SEC, IDX) {
        Some(t) => t,
        None => {
            vassert!(false, "ORACLE: the skeleton has the targeted record");
            return Ok(());
        }
    };
    let r = &K::RECS[t];
    let ttl = s.u32();
    let mut pp = parse_ok::<S>(&p)?;
    cut_errors(0);
    let mut got = 0u32;
    let found = cursor_at!(pp, SEC, IDX, it, {
        it.set_rr_ttl(ttl);
        got = it.rr_ttl();
    });
    vassert!(found, "the cursor reaches the targeted record");
    vassert!(got == ttl, "rr_ttl() returns the TTL just set");
    let after = pp.packet().to_vec();
    vassert!(after.len() == p.len(), "set_rr_ttl: packet length unchanged");
    let o = r.name_end + 4;
    let mut same = true;
    let mut i = 0;
    while i < p.len() {
        if i < o || i >= o + 4 {
            same &= after[i] == p[i];
        }
        i += 1;
    }
    vassert!(same, "set_rr_ttl: every byte outside the record's TTL field is unchanged");
    vassert!(spec::rd32(&after, o) == ttl, "set_rr_ttl: the TTL field holds the argument, big endian");
    check_view(&mut pp)?;
    vcover!(s, true, "end");
    Ok(())
}

/// set_rr_ip on record IDX of section SEC: V4 into A / V6 into AAAA changes
/// only the address bytes; the wrong family or a non-address record is an
/// error that changes nothing.
pub fn set_ip<S: Src, K: Skel, const SEC: u8, const IDX: usize>(s: &mut S) -> Verdict {
    let p = K::build(s);
    let t = match target_of::<K>(SEC, IDX) {
        Some(t) => t,
        None => {
            vassert!(false, "ORACLE: the skeleton has the targeted record");
            return Ok(());
        }
    };
    let r = &K::RECS[t];
    let v6 = s.bool();
    let mut a = [0u8; 16];
    let mut i = 0;
    while i < 16 {
        a[i] = s.u8();
        i += 1;
    }
    let ip = if v6 { IpAddr::V6(Ipv6Addr::from(a)) } else { IpAddr::V4(Ipv4Addr::new(a[0], a[1], a[2], a[3])) };
    let mut pp = parse_ok::<S>(&p)?;
    cut_errors(0);
    let mut ok = false;
    let found = cursor_at!(pp, SEC, IDX, it, {
        ok = it.set_rr_ip(&ip).is_ok();
    });
    vassert!(found, "the cursor reaches the targeted record");
    let want_ok = (r.rtype == spec::T_A && !v6) || (r.rtype == spec::T_AAAA && v6);
    vassert!(ok == want_ok, "set_rr_ip succeeds exactly for a matching address family on A/AAAA");
    let after = pp.packet().to_vec();
    vassert!(after.len() == p.len(), "set_rr_ip: packet length unchanged");
    let o = r.name_end + 10;
    let n = if v6 { 16 } else { 4 };
    let mut same = true;
    let mut i = 0;
    while i < p.len() {
        if !ok || i < o || i >= o + n {
            same &= after[i] == p[i];
        }
        i += 1;
    }
    vassert!(same, "set_rr_ip: every byte outside the address is unchanged (all bytes when it fails)");
    if ok {
        let mut j = 0;
        let mut good = true;
        while j < n {
            good &= after[o + j] == a[j];
            j += 1;
        }
        vassert!(good, "set_rr_ip: the address bytes hold the argument");
    }
    check_view(&mut pp)?;
    vcover!(s, ok, "address set");
    vcover!(s, !ok, "address refused");
    Ok(())
}

// ------------------------------------------------------------------ set_raw_name

pub trait NewName {
    /// label lengths of the new owner name (root label implied)
    const LABELS: &'static [usize];
    /// 0: label bytes from the alphabet the parser admits; 1: any bytes
    const ANY_BYTES: bool;
}

/// a new name of two labels of A and B bytes (B == 0: one label)
pub struct Nm<const A: usize, const B: usize, const ANY: bool>;
impl<const A: usize, const B: usize, const ANY: bool> NewName for Nm<A, B, ANY> {
    const LABELS: &'static [usize] = if B == 0 { &[A] } else { &[A, B] };
    const ANY_BYTES: bool = ANY;
}

fn build_name<S: Src, N: NewName>(s: &mut S) -> Vec<u8> {
    let mut v = Vec::new();
    let mut i = 0;
    while i < N::LABELS.len() {
        let l = N::LABELS[i];
        v.push(l as u8);
        let mut j = 0;
        while j < l {
            v.push(if N::ANY_BYTES { s.u8() } else { s.lab() });
            j += 1;
        }
        i += 1;
    }
    v.push(0);
    v
}

/// set_raw_name on record IDX of section SEC (SEC 0: the question).
pub fn set_name<S: Src, K: Skel, N: NewName, const SEC: u8, const IDX: usize>(s: &mut S) -> Verdict {
    let p = K::build(s);
    let (recs, n) = recs_of::<K>();
    let t = match target_of::<K>(SEC, IDX) {
        Some(t) => t,
        None => {
            vassert!(false, "ORACLE: the skeleton has the targeted record");
            return Ok(());
        }
    };
    let name = build_name::<S, N>(s);
    let mut pp = parse_ok::<S>(&p)?;
    // set_raw_name is expected to succeed: library errors are failed checks
    // (with arbitrary label bytes it may be refused: error paths explored)
    if N::ANY_BYTES {
        cut_errors(0);
    }
    let mut ok = false;
    let mut cur_ok = true;
    let mut next_off: Option<usize> = None;
    let mut cur_off: Option<usize> = None;
    let mut cur_name = Vec::new();
    let mut cur_type = 0u16;
    let mut found = false;
    if SEC == 0 {
        let mut cur = pp.into_iter_question();
        while let Some(mut it) = cur {
            found = true;
            ok = it.set_raw_name(&name).is_ok();
            cur_off = it.offset();
            it.copy_raw_name(&mut cur_name);
            cur_type = it.rr_type();
            next_off = it.next().and_then(|x| x.offset());
            break;
        }
    } else {
        found = cursor_at!(pp, SEC, IDX, it, {
            ok = it.set_raw_name(&name).is_ok();
            cur_off = it.offset();
            it.copy_raw_name(&mut cur_name);
            cur_type = it.rr_type();
            next_off = it.next().and_then(|x| x.offset());
        });
    }
    cut_errors(0);
    vassert!(found, "the cursor reaches the targeted record");
    let after = pp.packet().to_vec();
    if N::ANY_BYTES && !ok {
        // refused (a byte the parser does not admit in owner names): nothing may change (C10)
        check_view(&mut pp)?;
        same_message::<K>(&p, &after)?;
        vcover!(s, true, "refused");
        return Ok(());
    }
    vassert!(ok, "set_raw_name succeeds with a well-formed pointer-free name");
    check_view(&mut pp)?;
    // C09: exactly the owner name of the targeted record changed
    let mut alay = spec::Layout::new();
    if spec::layout_of(&after, &mut alay) != spec::Acc::Yes {
        vassert!(false, "set_raw_name: the resulting bytes are well-formed");
        return Ok(());
    }
    vassert!(spec::bytes_eq(&p, 0, &after, 0, 12), "set_raw_name: header and counts unchanged");
    vassert!(alay.nrec == n, "set_raw_name: number of records unchanged");
    let mut i = 0;
    while i < n && i < alay.nrec {
        if i == t {
            vassert!(spec::name_is(&after, alay.recs[i].start, &name, false), "set_raw_name: the targeted record's owner name is the new name");
            vassert!(spec::rec_eq_rest(&p, &recs[i], &after, &alay.recs[i], true), "set_raw_name: the rest of the targeted record is unchanged");
        } else {
            vassert!(spec::rec_eq(&p, &recs[i], &after, &alay.recs[i], true), "set_raw_name: every other record is unchanged");
        }
        i += 1;
    }
    // C08: the cursor still designates the renamed record, and advancing yields the next one
    vassert!(cur_off == Some(alay.recs[t].start), "set_raw_name: the cursor still designates the renamed record");
    vassert!(slices_eq(&cur_name, &name), "set_raw_name: the cursor reads back the new name");
    vassert!(cur_type == recs[t].rtype || SEC == 0, "set_raw_name: the cursor reads the record's type");
    let mut want_next: Option<usize> = None;
    let mut j = t + 1;
    while j < n {
        if alay.recs[j].section == SEC && (alay.recs[j].rtype != spec::T_OPT) {
            want_next = Some(alay.recs[j].start);
            break;
        }
        j += 1;
    }
    vassert!(next_off == want_next, "set_raw_name: advancing the cursor yields the record that followed");
    vcover!(s, true, "end");
    Ok(())
}

/// set_raw_name with a name that must be refused (C10): nothing changes.
/// BAD 0: a label of 64; 1: total length 256; 2: truncated (no root label);
/// 3: contains a compression pointer; 4: empty slice; 5..9: a '.', '\\', 0x1f,
/// 0x7f, 0x00 inside a label (the parser refuses such owner names)
pub fn set_name_bad<S: Src, K: Skel, const SEC: u8, const IDX: usize, const BAD: u8>(s: &mut S) -> Verdict {
    let p = K::build_cl(s);
    let mut name: Vec<u8> = Vec::new();
    match BAD {
        0 => {
            name.push(64);
            let mut i = 0;
            while i < 64 {
                name.push(b'a');
                i += 1;
            }
            name.push(0);
        }
        1 => {
            // 63,63,63,62 + root = 4 + 251 + 1 = 256
            let mut k = 0;
            while k < 4 {
                let l = if k == 3 { 62 } else { 63 };
                name.push(l as u8);
                let mut i = 0;
                while i < l {
                    name.push(b'b');
                    i += 1;
                }
                k += 1;
            }
            name.push(0);
        }
        2 => {
            name.push(3);
            name.push(s.lab());
            name.push(s.lab());
            name.push(s.lab());
        }
        3 => {
            name.push(1);
            name.push(s.lab());
            name.push(0xc0);
            name.push(12);
        }
        // well-formed structure, but a byte the parser refuses in owner names
        5 | 6 | 7 | 8 | 9 => {
            name.push(2);
            name.push(b'a');
            name.push(match BAD {
                5 => b'.',
                6 => b'\\',
                7 => 0x1f,
                8 => 0x7f,
                _ => 0x00,
            });
            name.push(1);
            name.push(b'b');
            name.push(0);
        }
        _ => {}
    }
    let mut pp = parse_ok::<S>(&p)?;
    cut_errors(0);
    let mut res_ok = true;
    let found = cursor_at!(pp, SEC, IDX, it, {
        res_ok = it.set_raw_name(&name).is_ok();
    });
    vassert!(found, "the cursor reaches the targeted record");
    if BAD >= 5 && res_ok {
        // the structure is fine; the property does not say such a name must be refused, only
        // that a *successful* call leaves bytes the parser accepts and a consistent view (C08)
        check_view(&mut pp)?;
        vcover!(s, true, "accepted");
        return Ok(());
    }
    vassert!(!res_ok, "set_raw_name refuses an ill-formed name");
    let after = pp.packet().to_vec();
    // C10: same decoded message (the packet may have been decompressed) and the view holds
    check_view(&mut pp)?;
    same_message::<K>(&p, &after)?;
    vcover!(s, true, "end");
    Ok(())
}

/// decode(after) == decode(p) (names up to case, after expansion)
fn same_message<K: Skel>(p: &[u8], after: &[u8]) -> Verdict {
    let (recs, n) = recs_of::<K>();
    let mut alay = spec::Layout::new();
    if spec::layout_of(after, &mut alay) != spec::Acc::Yes {
        vassert!(false, "after a failed operation the bytes are still well-formed");
        return Ok(());
    }
    vassert!(spec::bytes_eq(p, 0, after, 0, 12), "after a failed operation: header and counts unchanged");
    vassert!(alay.nrec == n, "after a failed operation: number of records unchanged");
    let mut i = 0;
    while i < n && i < alay.nrec {
        vassert!(spec::rec_eq(p, &recs[i], after, &alay.recs[i], true), "after a failed operation: every record decodes as before");
        i += 1;
    }
    Ok(())
}

// ------------------------------------------------------------------ delete

/// delete record IDX of section SEC, then delete again through the same
/// cursor (must report a void record and change nothing), then advance.
pub fn delete<S: Src, K: Skel, const SEC: u8, const IDX: usize>(s: &mut S) -> Verdict {
    let p = K::build(s);
    let (recs, n) = recs_of::<K>();
    let t = match target_of::<K>(SEC, IDX) {
        Some(t) => t,
        None => {
            vassert!(false, "ORACLE: the skeleton has the targeted record");
            return Ok(());
        }
    };
    let mut pp = parse_ok::<S>(&p)?;
    let mut ok = false;
    let mut second_void = false;
    let mut tomb = false;
    let mut mid: Vec<u8> = Vec::new();
    let mut mid2: Vec<u8> = Vec::new();
    let mut next_off: Option<usize> = None;
    let mut found = false;
    if SEC == 0 {
        let mut cur = pp.into_iter_question();
        while let Some(mut it) = cur {
            found = true;
            ok = it.delete().is_ok();
            tomb = it.is_tombstone();
            mid = it.parsed_packet().packet().to_vec();
            cut_errors(0);
            second_void = match it.delete() {
                Err(e) => err_kind(&e) == EK::VoidRecord,
                Ok(()) => false,
            };
            mid2 = it.parsed_packet().packet().to_vec();
            next_off = it.next().and_then(|x| x.offset());
            break;
        }
    } else {
        found = cursor_at!(pp, SEC, IDX, it, {
            ok = it.delete().is_ok();
            tomb = it.is_tombstone();
            mid = it.parsed_packet().packet().to_vec();
            cut_errors(0);
            second_void = match it.delete() {
                Err(e) => err_kind(&e) == EK::VoidRecord,
                Ok(()) => false,
            };
            mid2 = it.parsed_packet().packet().to_vec();
            next_off = it.next().and_then(|x| x.offset());
        });
    }
    cut_errors(0);
    vassert!(found, "the cursor reaches the targeted record");
    vassert!(ok, "delete succeeds on a live cursor");
    vassert!(tomb, "delete: the cursor becomes a tombstone");
    vassert!(second_void, "delete through a tombstone reports a void record");
    vassert!(slices_eq(&mid, &mid2), "delete through a tombstone changes nothing");
    let after = pp.packet().to_vec();
    vassert!(slices_eq(&after, &mid), "advancing a tombstone cursor changes nothing");
    if SEC != 0 {
        // a question-less packet is not accepted by the parser: the view comparison is for record sections
        check_view(&mut pp)?;
    }
    let mut alay = spec::Layout::new();
    let acc = if SEC == 0 { spec::Acc::No } else { spec::layout_of(&after, &mut alay) };
    if SEC != 0 {
        if acc != spec::Acc::Yes {
            vassert!(false, "delete: the resulting bytes are well-formed");
            return Ok(());
        }
        vassert!(alay.nrec + 1 == n, "delete: exactly one record fewer");
        vassert!(spec::bytes_eq(&p, 0, &after, 0, 4), "delete: id and flags unchanged");
        let mut sct = 0;
        while sct < 4 {
            let want = recs_count(&recs, n, sct as u8) - if sct as u8 == SEC { 1 } else { 0 };
            vassert!(spec::rd16(&after, 4 + 2 * sct) as usize == want, "delete: only the section's count is lowered, by one");
            sct += 1;
        }
        let mut i = 0;
        while i < n {
            if i < t {
                vassert!(spec::rec_eq(&p, &recs[i], &after, &alay.recs[i], true), "delete: records before the deleted one are unchanged");
            } else if i > t {
                vassert!(spec::rec_eq(&p, &recs[i], &after, &alay.recs[i - 1], true), "delete: records after the deleted one are unchanged, in order");
            }
            i += 1;
        }
        // C11: after a deletion the walk goes on with a surviving record of the section
        // (the library restarts the section), never with a deleted one
        let mut is_survivor = false;
        let mut any_survivor = false;
        let mut j = 0;
        while j < alay.nrec {
            if alay.recs[j].section == SEC && alay.recs[j].rtype != spec::T_OPT {
                any_survivor = true;
                is_survivor |= next_off == Some(alay.recs[j].start);
            }
            j += 1;
        }
        vassert!(if any_survivor { is_survivor } else { next_off.is_none() }, "delete: advancing yields a surviving record of the section, or nothing when none is left");
        if recs_count(&recs, n, SEC) == 1 {
            let off = match SEC {
                1 => pp.offset_answers,
                2 => pp.offset_nameservers,
                _ => pp.offset_additional,
            };
            vassert!(off.is_none(), "delete: an emptied section reads as absent");
        }
    } else {
        vassert!(spec::rd16(&after, 4) == 0, "delete: question count lowered");
        vassert!(pp.offset_question.is_none(), "delete: an emptied question section reads as absent");
        let mut orecs = [spec::NOREC; spec::MAX_RR];
        let olen = spec::expanded_layout(&p, &recs[..n], &mut orecs);
        vassert!(after.len() + (orecs[0].next - orecs[0].start) == olen, "delete: exactly the question's bytes are removed");
    }
    vcover!(s, true, "end");
    Ok(())
}

fn recs_count(recs: &[spec::Rec], n: usize, sec: u8) -> usize {
    let mut c = 0;
    let mut i = 0;
    while i < n {
        if recs[i].section == sec {
            c += 1;
        }
        i += 1;
    }
    c
}

// ------------------------------------------------------------------ insert

/// insert an A record (owner "ab.cd", symbolic TTL and address) built with
/// `A::build` into section SEC; SEC 0 inserts a second question (must fail,
/// C10: nothing changes).
pub fn insert<S: Src, K: Skel, const SEC: u8>(s: &mut S) -> Verdict {
    // the refused insertion explores error paths: label characters concrete there
    let p = if SEC == 0 { K::build_cl(s) } else { K::build(s) };
    let (recs, n) = recs_of::<K>();
    let ttl = s.u32();
    let a = [s.u8(), s.u8(), s.u8(), s.u8()];
    let mut pp = parse_ok::<S>(&p)?;
    let rr = if SEC == 0 {
        r#gen::RR::new_question(b"ab.cd", Type::A, Class::IN)
    } else {
        r#gen::A::build(
            r#gen::RRHeader { name: b"ab.cd".to_vec(), ttl, class: Class::IN, rr_type: Type::A },
            Ipv4Addr::new(a[0], a[1], a[2], a[3]),
        )
    };
    let rr = match rr {
        Ok(rr) => rr,
        Err(_) => {
            vassert!(false, "building the record succeeds");
            return Ok(());
        }
    };
    let rrb = rr.packet.clone();
    let section = match SEC {
        0 => Section::Question,
        1 => Section::Answer,
        2 => Section::NameServers,
        _ => Section::Additional,
    };
    if SEC == 0 {
        // the refusal is explored with error paths on; to keep that exploration to insert_rr
        // itself the packet is decompressed first (an operation that must succeed)
        if pp.maybe_compressed {
            let u = Compress::uncompress(pp.packet());
            match u {
                Ok(u) => {
                    pp.packet = Some(u);
                    let rc = pp.recompute();
                    vassert!(rc.is_ok(), "recompute after decompression succeeds");
                }
                Err(_) => vassert!(false, "uncompress succeeds on an accepted packet"),
            }
        }
        cut_errors(0);
    }
    let res = pp.insert_rr(section, rr);
    cut_errors(0);
    let after = pp.packet().to_vec();
    if SEC == 0 {
        vassert!(res.is_err(), "inserting a second question is refused");
        check_view(&mut pp)?;
        same_message::<K>(&p, &after)?;
        vcover!(s, true, "end");
        return Ok(());
    }
    vassert!(res.is_ok(), "insert_rr succeeds");
    check_view(&mut pp)?;
    let mut alay = spec::Layout::new();
    if spec::layout_of(&after, &mut alay) != spec::Acc::Yes {
        vassert!(false, "insert_rr: the resulting bytes are well-formed");
        return Ok(());
    }
    vassert!(alay.nrec == n + 1, "insert_rr: exactly one record more");
    vassert!(spec::bytes_eq(&p, 0, &after, 0, 4), "insert_rr: id and flags unchanged");
    let mut sct = 0;
    while sct < 4 {
        let want = recs_count(&recs, n, sct as u8) + if sct as u8 == SEC { 1 } else { 0 };
        vassert!(spec::rd16(&after, 4 + 2 * sct) as usize == want, "insert_rr: only the section's count is raised, by one");
        sct += 1;
    }
    // position: after the last record whose section is <= SEC
    let mut pos = 0;
    let mut i = 0;
    while i < n {
        if recs[i].section <= SEC {
            pos = i + 1;
        }
        i += 1;
    }
    let mut i = 0;
    while i < n {
        let j = if i < pos { i } else { i + 1 };
        vassert!(spec::rec_eq(&p, &recs[i], &after, &alay.recs[j], true), "insert_rr: every existing record is unchanged, in order");
        i += 1;
    }
    let nr = &alay.recs[pos];
    vassert!(nr.section == SEC, "insert_rr: the new record is the last of the chosen section");
    vassert!(nr.next - nr.start == rrb.len() && spec::bytes_eq(&after, nr.start, &rrb, 0, rrb.len()), "insert_rr: the new record is the given record");
    vassert!(spec::rd32(&after, nr.name_end + 4) == ttl && after[nr.name_end + 10] == a[0] && after[nr.name_end + 13] == a[3], "insert_rr: TTL and address of the new record");
    vcover!(s, true, "end");
    Ok(())
}

// ------------------------------------------------------------------ cached question

/// question_raw0() first (fills the cache), then set_raw_name on the question:
/// the cached question must not survive the change.
pub fn cache_then_set_question<S: Src, K: Skel, N: NewName>(s: &mut S) -> Verdict {
    let p = K::build(s);
    let name1 = build_name::<S, Nm<3, 0, false>>(s);
    let name = build_name::<S, N>(s);
    let mut pp = parse_ok::<S>(&p)?;
    // step 1: a first rename of the question (this also decompresses the packet, after
    // which later operations no longer go through recompute())
    let mut ok1 = false;
    let mut cur = pp.into_iter_question();
    while let Some(mut it) = cur {
        ok1 = it.set_raw_name(&name1).is_ok();
        break;
    }
    vassert!(ok1, "set_raw_name on the question succeeds");
    // step 2: fill the cache
    let warm = match pp.question_raw0() {
        Some((n, _, _)) => slices_eq(n, &name1),
        None => false,
    };
    vassert!(warm, "question_raw0() returns the question just set");
    // step 3: rename the question again
    let mut ok = false;
    let mut cur = pp.into_iter_question();
    while let Some(mut it) = cur {
        ok = it.set_raw_name(&name).is_ok();
        break;
    }
    cut_errors(0);
    vassert!(ok, "set_raw_name on the question succeeds");
    check_view(&mut pp)?;
    match pp.question_raw0() {
        Some((n, _, _)) => vassert!(slices_eq(n, &name), "question_raw0() after renaming the question returns the new name"),
        None => vassert!(false, "question_raw0() after renaming the question"),
    }
    vcover!(s, true, "end");
    Ok(())
}

// ------------------------------------------------------------------ in-place decompression through a cursor

/// `it.uncompress()` on record IDX of section SEC: afterwards the cursor
/// still designates that record and reads it correctly; the view holds.
pub fn it_uncompress<S: Src, K: Skel, const SEC: u8, const IDX: usize>(s: &mut S) -> Verdict {
    let p = K::build(s);
    let (recs, n) = recs_of::<K>();
    let t = match target_of::<K>(SEC, IDX) {
        Some(t) => t,
        None => {
            vassert!(false, "ORACLE: the skeleton has the targeted record");
            return Ok(());
        }
    };
    let mut orecs = [spec::NOREC; spec::MAX_RR];
    let olen = spec::expanded_layout(&p, &recs[..n], &mut orecs);
    let mut pp = parse_ok::<S>(&p)?;
    let mut ok = false;
    let mut cur_off: Option<usize> = None;
    let mut cur_next = 0usize;
    let mut cur_name = Vec::new();
    let mut cur_type = 0u16;
    let mut cur_ttl = 0u32;
    let mut next_off: Option<usize> = None;
    let found = cursor_at!(pp, SEC, IDX, it, {
        ok = it.uncompress().is_ok();
        cur_off = it.offset();
        cur_next = it.offset_next();
        it.copy_raw_name(&mut cur_name);
        cur_type = it.rr_type();
        cur_ttl = it.rr_ttl();
        next_off = it.next().and_then(|x| x.offset());
    });
    cut_errors(0);
    vassert!(found, "the cursor reaches the targeted record");
    vassert!(ok, "uncompress() through a cursor succeeds");
    let after = pp.packet().to_vec();
    vassert!(after.len() == olen, "uncompress() through a cursor: the packet is the decompressed packet");
    check_view(&mut pp)?;
    let mut w = [0u8; 256];
    let wl = spec::name_wire(&p, recs[t].start, &mut w);
    vassert!(cur_off == Some(orecs[t].start), "uncompress() through a cursor: the cursor designates the same record in the new bytes");
    vassert!(cur_next == orecs[t].next, "uncompress() through a cursor: the next offset is the record's end in the new bytes");
    vassert!(cur_name.len() == wl && spec::bytes_eq(&cur_name, 0, &w, 0, wl), "uncompress() through a cursor: the cursor reads the record's owner name");
    vassert!(cur_type == recs[t].rtype, "uncompress() through a cursor: the cursor reads the record's type");
    vassert!(cur_ttl == spec::rd32(&p, recs[t].name_end + 4), "uncompress() through a cursor: the cursor reads the record's TTL");
    let mut want_next: Option<usize> = None;
    let mut j = t + 1;
    while j < n {
        if orecs[j].section == SEC && orecs[j].rtype != spec::T_OPT {
            want_next = Some(orecs[j].start);
            break;
        }
        j += 1;
    }
    vassert!(next_off == want_next, "uncompress() through a cursor: advancing yields the record that followed");
    vcover!(s, true, "end");
    Ok(())
}

// ------------------------------------------------------------------ header setters + recompute on a whole packet

pub fn header_ops<S: Src, K: Skel, const RECOMPUTE: bool>(s: &mut S) -> Verdict {
    let p = K::build(s);
    let mut pp = parse_ok::<S>(&p)?;
    let tid = s.u16();
    let fl = s.u32();
    let rc = s.u8();
    let oc = s.u8();
    pp.set_tid(tid);
    // QR is kept: flipping it on a packet with answers is not a "successful operation on a valid packet"
    pp.set_flags((fl & !0x8000) | (spec::rd16(&p, 2) as u32 & 0x8000));
    pp.set_rcode(rc);
    pp.set_opcode(oc);
    if RECOMPUTE {
        let r = pp.recompute();
        vassert!(r.is_ok(), "recompute succeeds");
    }
    cut_errors(0);
    let after = pp.packet().to_vec();
    vassert!(after.len() == p.len() && spec::bytes_eq(&p, 4, &after, 4, p.len() - 4), "header setters + recompute: nothing beyond id and flags changes");
    check_view(&mut pp)?;
    vcover!(s, true, "end");
    Ok(())
}

// ------------------------------------------------------------------ C11: deleting while iterating

/// Walk section SEC with the documented protocol and delete the records
/// whose bit is set in MASK (bit i = i-th record yielded by the walk of the
/// original section). Terminates within the fuel; no deleted record is
/// yielded again; every survivor is yielded; the section ends up holding
/// exactly the survivors in order.
pub fn delete_walk<S: Src, K: Skel, const SEC: u8, const MASK: u32>(s: &mut S) -> Verdict {
    let p = K::build(s);
    let (recs, n) = recs_of::<K>();
    let mut orecs = [spec::NOREC; spec::MAX_RR];
    let _olen = spec::expanded_layout(&p, &recs[..n], &mut orecs);
    // the records of the section the walk yields (OPT is skipped by the walk)
    let mut ids = [0usize; spec::MAX_RR];
    let mut cnt = 0;
    let mut i = 0;
    while i < n {
        if recs[i].section == SEC && recs[i].rtype != spec::T_OPT {
            ids[cnt] = i;
            cnt += 1;
        }
        i += 1;
    }
    let mut pp = parse_ok::<S>(&p)?;
    let fuel = cnt * (cnt + 1) + 2;
    let mut steps = 0usize;
    let mut gone = [false; spec::MAX_RR]; // by index into recs
    let mut seen = [false; spec::MAX_RR];
    let mut deleted = 0usize;
    let mut order_ok = true;
    let mut ident_ok = true;
    let mut void_ok = true;
    {
        let mut cur = match SEC {
            1 => pp.into_iter_answer(),
            2 => pp.into_iter_nameservers(),
            _ => pp.into_iter_additional(),
        };
        while let Some(mut it) = cur {
            steps += 1;
            if steps > fuel {
                break;
            }
            // which original record is under the cursor? Its current offset: original start
            // while nothing was deleted; afterwards (the packet is then fully expanded) the
            // expanded start minus the expanded sizes of the deleted records before it.
            let off = it.offset();
            let mut k = cnt; // index into ids
            let mut a = 0;
            while a < cnt {
                let r = ids[a];
                if !gone[r] {
                    let cur_start = if deleted == 0 {
                        recs[r].start
                    } else {
                        let mut st = orecs[r].start;
                        let mut b = 0;
                        while b < r {
                            if gone[b] {
                                st -= orecs[b].next - orecs[b].start;
                            }
                            b += 1;
                        }
                        st
                    };
                    if off == Some(cur_start) {
                        k = a;
                    }
                }
                a += 1;
            }
            if k >= cnt {
                ident_ok = false;
                break;
            }
            let r = ids[k];
            let orig = &recs[r];
            order_ok &= it.rr_type() == orig.rtype && it.rr_ttl() == spec::rd32(&p, orig.name_end + 4);
            seen[r] = true;
            if MASK & (1 << k) != 0 {
                let d = it.delete().is_ok();
                order_ok &= d;
                cut_errors(0);
                let before = it.parsed_packet().packet().to_vec();
                void_ok &= match it.delete() {
                    Err(e) => err_kind(&e) == EK::VoidRecord,
                    Ok(()) => false,
                };
                void_ok &= slices_eq(&before, it.parsed_packet().packet());
                cut_errors(2);
                gone[r] = true;
                deleted += 1;
            }
            cur = it.next();
        }
    }
    cut_errors(0);
    vassert!(steps <= fuel, "delete walk: terminates");
    vassert!(ident_ok, "delete walk: every record yielded is a surviving record of the section (no deleted record is yielded again)");
    vassert!(order_ok, "delete walk: the cursor reads the record it designates and every delete succeeds");
    let mut all_seen = true;
    let mut a = 0;
    while a < cnt {
        all_seen &= seen[ids[a]];
        a += 1;
    }
    vassert!(all_seen, "delete walk: every record of the section is yielded at least once");
    let mut want_deleted = 0;
    let mut a = 0;
    while a < cnt {
        if MASK & (1 << a) != 0 {
            want_deleted += 1;
        }
        a += 1;
    }
    vassert!(deleted == want_deleted, "delete walk: every record chosen for deletion was deleted, once");
    vassert!(void_ok, "delete walk: a second delete through the same cursor reports a void record and changes nothing");
    let after = pp.packet().to_vec();
    check_view(&mut pp)?;
    let mut alay = spec::Layout::new();
    if spec::layout_of(&after, &mut alay) != spec::Acc::Yes {
        vassert!(false, "delete walk: the resulting bytes are well-formed");
        return Ok(());
    }
    vassert!(alay.nrec + deleted == n, "delete walk: the packet holds exactly the survivors");
    vassert!(alay.counts[SEC as usize] + deleted == recs_count(&recs, n, SEC), "delete walk: the section count matches");
    // survivors in original order
    let mut j = 0; // index in alay
    let mut i = 0;
    let mut k = 0; // index among the section's non-OPT records
    while i < n {
        let is_target = recs[i].section == SEC && recs[i].rtype != spec::T_OPT;
        let gone = is_target && (MASK & (1 << k) != 0);
        if is_target {
            k += 1;
        }
        if !gone {
            vassert!(j < alay.nrec && spec::rec_eq(&p, &recs[i], &after, &alay.recs[j], true), "delete walk: survivors are unchanged and in their original order");
            j += 1;
        }
        i += 1;
    }
    if alay.counts[SEC as usize] == 0 {
        let off = match SEC {
            1 => pp.offset_answers,
            2 => pp.offset_nameservers,
            _ => pp.offset_additional,
        };
        vassert!(off.is_none(), "delete walk: an emptied section reads as absent");
    }
    vcover!(s, true, "end");
    Ok(())
}

// ------------------------------------------------------------------ rename through the object: view only

/// ParsedPacket::rename_with_raw_names (suffix "zz" -> "new" style rename on
/// the skeleton's own question suffix is not needed here: any rename, matching
/// or not, must leave an object whose view equals a fresh parse).
pub fn rename_view<S: Src, K: Skel>(s: &mut S) -> Verdict {
    let p = K::build_cl(s);
    let mut pp = parse_ok::<S>(&p)?;
    // source: the last label of the question name + root, taken from the skeleton bytes
    let q = &K::RECS[0];
    let mut w = [0u8; 256];
    let wl = spec::name_wire(&p, q.start, &mut w);
    // find the start of the last label
    let mut cur = 0;
    let mut last = 0;
    let mut g = 0;
    while g < 130 && cur < wl && w[cur] != 0 {
        g += 1;
        last = cur;
        cur += w[cur] as usize + 1;
    }
    let source = &w[last..wl];
    let target: &[u8] = &[3, b'n', b'e', b'w', 2, b't', b'g', 0];
    let r = pp.rename_with_raw_names(target, source, true);
    vassert!(r.is_ok(), "rename_with_raw_names succeeds");
    check_view(&mut pp)?;
    vcover!(s, true, "end");
    Ok(())
}

// ------------------------------------------------------------------ programs found missing by seeded changes

/// delete the question, then insert a new question: it must be the first
/// record again and nothing else may move.
pub fn reinsert_question<S: Src, K: Skel>(s: &mut S) -> Verdict {
    let p = K::build(s);
    let (recs, n) = recs_of::<K>();
    let mut pp = parse_ok::<S>(&p)?;
    let mut ok = false;
    let mut cur = pp.into_iter_question();
    while let Some(mut it) = cur {
        ok = it.delete().is_ok();
        break;
    }
    vassert!(ok, "delete on the question succeeds");
    let rr = match r#gen::RR::new_question(b"nq.zz", Type::AAAA, Class::IN) {
        Ok(rr) => rr,
        Err(_) => {
            vassert!(false, "building the question succeeds");
            return Ok(());
        }
    };
    let rrb = rr.packet.clone();
    let res = pp.insert_rr(Section::Question, rr);
    cut_errors(0);
    vassert!(res.is_ok(), "insert_rr(Question) succeeds on a packet without a question");
    let after = pp.packet().to_vec();
    check_view(&mut pp)?;
    let mut alay = spec::Layout::new();
    if spec::layout_of(&after, &mut alay) != spec::Acc::Yes {
        vassert!(false, "re-inserting the question: the resulting bytes are well-formed");
        return Ok(());
    }
    vassert!(alay.nrec == n, "re-inserting the question: same number of records");
    vassert!(alay.recs[0].start == 12 && spec::bytes_eq(&after, 12, &rrb, 0, rrb.len()), "re-inserting the question: the new question is the first record");
    let mut i = 1;
    while i < n {
        vassert!(spec::rec_eq(&p, &recs[i], &after, &alay.recs[i], true), "re-inserting the question: every other record is unchanged, in order");
        i += 1;
    }
    vcover!(s, true, "end");
    Ok(())
}

/// iterator.uncompress() (the object then says "no pointers"), then rename
/// through the object: the view, including the pointer flag, must match.
pub fn rename_after_uncompress<S: Src, K: Skel>(s: &mut S) -> Verdict {
    let p = K::build_cl(s);
    let mut pp = parse_ok::<S>(&p)?;
    let mut ok = false;
    let found = cursor_at!(pp, 1, 0, it, {
        ok = it.uncompress().is_ok();
    });
    vassert!(found && ok, "uncompress() through a cursor succeeds");
    vassert!(!pp.maybe_compressed, "after in-place decompression the object reports no pointers");
    let q = &K::RECS[0];
    let mut w = [0u8; 256];
    let wl = spec::name_wire(&p, q.start, &mut w);
    let mut cur = 0;
    let mut last = 0;
    let mut g = 0;
    while g < 130 && cur < wl && w[cur] != 0 {
        g += 1;
        last = cur;
        cur += w[cur] as usize + 1;
    }
    let source = &w[last..wl];
    let target: &[u8] = &[3, b'n', b'e', b'w', 2, b't', b'g', 0];
    let r = pp.rename_with_raw_names(target, source, true);
    vassert!(r.is_ok(), "rename_with_raw_names succeeds");
    check_view(&mut pp)?;
    vcover!(s, true, "end");
    Ok(())
}

// ------------------------------------------------------------------ deleting the OPT record

/// C08 / C09 / C11: reach the OPT pseudo-record with the OPT-including walk of the
/// additional section and delete it: only that record and the additional count go, and the
/// object's EDNS view (offset, option count, version, flags, extended rcode, payload size)
/// equals a fresh parse of the bytes, i.e. "no OPT".
pub fn delete_opt<S: Src, K: Skel>(s: &mut S) -> Verdict {
    let p = K::build(s);
    let (recs, n) = recs_of::<K>();
    let mut t = n;
    let mut i = 0;
    while i < n {
        if recs[i].section == 3 && recs[i].rtype == spec::T_OPT {
            t = i;
        }
        i += 1;
    }
    if t == n {
        vassert!(false, "ORACLE: the skeleton has an OPT record");
        return Ok(());
    }
    let mut pp = parse_ok::<S>(&p)?;
    let mut ok = false;
    let mut found = false;
    let mut tomb = false;
    let mut second_void = false;
    {
        let mut cur = pp.into_iter_additional_including_opt();
        while let Some(mut it) = cur {
            if it.rr_type() == spec::T_OPT {
                found = true;
                ok = it.delete().is_ok();
                tomb = it.is_tombstone();
                cut_errors(0);
                second_void = match it.delete() {
                    Err(e) => err_kind(&e) == EK::VoidRecord,
                    Ok(()) => false,
                };
                break;
            }
            cur = it.next_including_opt();
        }
    }
    cut_errors(0);
    vassert!(found, "the OPT-including walk reaches the OPT record");
    vassert!(ok, "delete succeeds on a live cursor");
    vassert!(tomb, "delete: the cursor becomes a tombstone");
    vassert!(second_void, "delete through a tombstone reports a void record");
    check_view(&mut pp)?;
    vassert!(pp.into_iter_edns().is_none(), "delete OPT: no EDNS option walk on a packet without OPT");
    let after = pp.packet().to_vec();
    let mut alay = spec::Layout::new();
    if spec::layout_of(&after, &mut alay) != spec::Acc::Yes {
        vassert!(false, "delete: the resulting bytes are well-formed");
        return Ok(());
    }
    vassert!(alay.nrec + 1 == n, "delete: exactly one record fewer");
    vassert!(spec::bytes_eq(&p, 0, &after, 0, 4), "delete: id and flags unchanged");
    let mut sct = 0;
    while sct < 4 {
        let want = recs_count(&recs, n, sct as u8) - if sct == 3 { 1 } else { 0 };
        vassert!(spec::rd16(&after, 4 + 2 * sct) as usize == want, "delete: only the section's count is lowered, by one");
        sct += 1;
    }
    let mut i = 0;
    while i < n {
        if i < t {
            vassert!(spec::rec_eq(&p, &recs[i], &after, &alay.recs[i], true), "delete: records before the deleted one are unchanged");
        } else if i > t {
            vassert!(spec::rec_eq(&p, &recs[i], &after, &alay.recs[i - 1], true), "delete: records after the deleted one are unchanged, in order");
        }
        i += 1;
    }
    if recs_count(&recs, n, 3) == 1 {
        vassert!(pp.offset_additional.is_none(), "delete: an emptied section reads as absent");
    }
    vcover!(s, true, "end");
    Ok(())
}
