//! C17 — results depend only on the arguments (sequential half): f(x), then
//! f(y), then f(x) again must give byte-identical results.
use crate::skel::*;
use crate::spec;
use crate::src::*;
use crate::util::*;
use dnssector::*;

fn fingerprint(pp: &ParsedPacket) -> [usize; 12] {
    [
        pp.offset_question.map_or(0, |x| x + 1),
        pp.offset_answers.map_or(0, |x| x + 1),
        pp.offset_nameservers.map_or(0, |x| x + 1),
        pp.offset_additional.map_or(0, |x| x + 1),
        pp.offset_edns.map_or(0, |x| x + 1),
        pp.edns_count as usize,
        pp.ext_rcode.map_or(0, |x| x as usize + 1),
        pp.edns_version.map_or(0, |x| x as usize + 1),
        pp.ext_flags.map_or(0, |x| x as usize + 1),
        pp.maybe_compressed as usize,
        pp.max_payload,
        pp.packet().len(),
    ]
}

/// F 0: parse; 1: uncompress; 2: compress; 3: Renamer::rename_with_raw_names
pub fn purity<S: Src, K1: Skel, K2: Skel, const F: u8>(s: &mut S) -> Verdict {
    let x = if F == 2 || F == 3 { K1::build_cl(s) } else { K1::build(s) };
    let y = if F == 2 || F == 3 { K2::build_cl(s) } else { K2::build(s) };
    cut_errors(2);
    let src: &[u8] = &[2, b'y', b'y', 0];
    let tgt: &[u8] = &[1, b'q', 3, b'n', b'e', b'w', 0];
    let run = |inp: &[u8]| -> Result<(Vec<u8>, [usize; 12]), ()> {
        match F {
            0 => match real_parse(inp) {
                Ok(pp) => Ok((pp.packet().to_vec(), fingerprint(&pp))),
                Err(_) => Err(()),
            },
            1 => Compress::uncompress(inp).map(|v| (v, [0; 12])).map_err(|_| ()),
            2 => Compress::compress(inp).map(|v| (v, [0; 12])).map_err(|_| ()),
            _ => match real_parse(inp) {
                Ok(mut pp) => Renamer::rename_with_raw_names(&mut pp, tgt, src, true).map(|v| (v, [0; 12])).map_err(|_| ()),
                Err(_) => Err(()),
            },
        }
    };
    let r1 = run(&x);
    let _ry = run(&y);
    let r2 = run(&x);
    cut_errors(0);
    match (r1, r2) {
        (Ok((a, fa)), Ok((b, fb))) => {
            vassert!(slices_eq(&a, &b), "same input, same output bytes, whatever was processed in between");
            let mut same = true;
            let mut i = 0;
            while i < 12 {
                same &= fa[i] == fb[i];
                i += 1;
            }
            vassert!(same, "same input, same parsed view, whatever was processed in between");
        }
        _ => vassert!(false, "the operation succeeds on an accepted packet (both times)"),
    }
    vcover!(s, true, "end");
    Ok(())
}

/// record synthesis: from_string(t1), from_string(t2), from_string(t1)
pub fn purity_synth<S: Src>(s: &mut S) -> Verdict {
    let d = s.u8();
    vassume!(d >= b'0' && d <= b'9');
    // the symbolic digit is the last byte of the text (the only place where the combinator
    // parser stays tractable, see DESIGN.md section 2)
    let t1 = [b'a', b'.', b'b', b' ', b'6', b'0', b' ', b'I', b'N', b' ', b'A', b' ', b'1', b'.', b'2', b'.', b'3', b'.', d];
    let t2 = "zz.yy 5 IN SOA n.s h.m (1 2 3 4 5)";
    cut_errors(2);
    let s1 = unsafe { std::str::from_utf8_unchecked(&t1) };
    let r1 = r#gen::RR::from_string(s1);
    let _r = r#gen::RR::from_string(t2);
    let r2 = r#gen::RR::from_string(s1);
    cut_errors(0);
    match (r1, r2) {
        (Ok(a), Ok(b)) => vassert!(slices_eq(&a.packet, &b.packet), "same text, same record, whatever was synthesised in between"),
        _ => vassert!(false, "synthesis of valid text succeeds (both times)"),
    }
    vcover!(s, true, "end");
    Ok(())
}

/// record builders (RR::new path, no combinator parser): build(x), build(x'), build(x)
/// where x' differs from x only in the ASCII case of name letters (owner and NS target):
/// each result is the wire form of *its own* arguments, and the two x results are identical.
/// This is the shape under which a memo keyed case-insensitively, or a reused buffer, shows.
pub fn purity_build<S: Src>(s: &mut S) -> Verdict {
    use std::net::Ipv4Addr;
    let ttl = s.u32();
    let a = [s.u8(), s.u8(), s.u8(), s.u8()];
    let hdr = |name: &[u8], t: Type| r#gen::RRHeader { name: name.to_vec(), ttl, class: Class::IN, rr_type: t };
    cut_errors(2);
    let r1 = r#gen::A::build(hdr(b"ab.cd", Type::A), Ipv4Addr::new(a[0], a[1], a[2], a[3]));
    let r2 = r#gen::A::build(hdr(b"aB.Cd", Type::A), Ipv4Addr::new(a[0], a[1], a[2], a[3]));
    let r3 = r#gen::A::build(hdr(b"ab.cd", Type::A), Ipv4Addr::new(a[0], a[1], a[2], a[3]));
    let n1 = r#gen::NS::build(hdr(b"ab.cd", Type::NS), b"ns.ef".to_vec());
    let n2 = r#gen::NS::build(hdr(b"AB.CD", Type::NS), b"NS.ef".to_vec());
    cut_errors(0);
    match (r1, r2, r3, n1, n2) {
        (Ok(r1), Ok(r2), Ok(r3), Ok(n1), Ok(n2)) => {
            vassert!(slices_eq(&r1.packet, &r3.packet), "same arguments, same record, whatever was synthesised in between");
            vassert!(r1.packet.len() > 7 && slices_eq(&r1.packet[..7], &[2, b'a', b'b', 2, b'c', b'd', 0]), "builder: owner name is the wire form of its own argument");
            vassert!(r2.packet.len() > 7 && slices_eq(&r2.packet[..7], &[2, b'a', b'B', 2, b'C', b'd', 0]), "builder: owner name is the wire form of its own argument, not of an earlier call's");
            vassert!(slices_eq(&r1.packet[7..], &r2.packet[7..]), "builder: fixed fields and data do not depend on the owner's letter case");
            vassert!(n1.packet.len() == 24 && slices_eq(&n1.packet[..7], &[2, b'a', b'b', 2, b'c', b'd', 0]) && slices_eq(&n1.packet[17..], &[2, b'n', b's', 2, b'e', b'f', 0]), "builder: NS names are the wire form of their own arguments");
            vassert!(n2.packet.len() == 24 && slices_eq(&n2.packet[..7], &[2, b'A', b'B', 2, b'C', b'D', 0]) && slices_eq(&n2.packet[17..], &[2, b'N', b'S', 2, b'e', b'f', 0]), "builder: NS names are the wire form of their own arguments, not of an earlier call's");
        }
        _ => vassert!(false, "builder succeeds on valid fields (every time)"),
    }
    vcover!(s, true, "end");
    Ok(())
}
