//! Leaf harnesses on the two untrusted-name validators (C01, C02, C18) and on
//! the trusted name readers (C03).
use crate::spec;
use crate::src::*;
use crate::util::*;
use dnssector::*;

/// C01+C02+C18: `Compress::check_compressed_name` on every buffer of up to N
/// bytes and every offset: returns (no panic), agrees with the name policy in
/// verdict and end offset, and spends at most one step per label or pointer.
pub fn check_compressed<S: Src, const N: usize>(s: &mut S) -> Verdict {
    let buf: [u8; N] = sym_bytes::<S, N>(s);
    let len = s.usize();
    vassume!(len <= N);
    let off = s.usize();
    let p = &buf[..len];
    errors::verif_steps_reset();
    let r = Compress::check_compressed_name(p, off);
    let steps = errors::verif_steps()[errors::VERIF_STEP_COMPRESSED_NAME] as usize;
    let want = spec::name_end(p, off, true);
    match r {
        Ok(end) => {
            vassert!(off < end && end <= len, "check_compressed_name: Ok(end) lies inside the buffer");
            vassert!(want == Some(end), "check_compressed_name accepts only well-formed names, with the right end");
            vassert!(steps <= spec::name_steps(p, off), "check_compressed_name: steps <= labels + pointers");
            vcover!(s, p[off] >= 0xc0, "accepted name starting with a pointer");
            vcover!(s, end == len && len == N, "accepted name filling the buffer");
        }
        Err(_) => {
            vassert!(want.is_none(), "check_compressed_name rejects only ill-formed names");
            vcover!(s, off < len && p[off] >= 0xc0, "rejected name starting with a pointer");
        }
    }
    vassert!(steps <= N + 1, "check_compressed_name: steps bounded by the buffer length");
    Ok(())
}

/// Same for `DNSSector::check_uncompressed_name` (DNAME targets, set_raw_name).
pub fn check_uncompressed<S: Src, const N: usize>(s: &mut S) -> Verdict {
    let buf: [u8; N] = sym_bytes::<S, N>(s);
    let len = s.usize();
    vassume!(len <= N);
    let off = s.usize();
    let p = &buf[..len];
    errors::verif_steps_reset();
    let r = DNSSector::check_uncompressed_name(p, off);
    let steps = errors::verif_steps()[errors::VERIF_STEP_UNCOMPRESSED_NAME] as usize;
    let want = spec::name_end(p, off, false);
    match r {
        Ok(end) => {
            vassert!(off < end && end <= len, "check_uncompressed_name: Ok(end) lies inside the buffer");
            vassert!(want == Some(end), "check_uncompressed_name accepts only well-formed pointer-free names");
            vcover!(s, end == len && len == N && off == 0, "accepted name filling the buffer");
        }
        Err(_) => {
            vassert!(want.is_none(), "check_uncompressed_name rejects only ill-formed names");
        }
    }
    vassert!(steps <= N + 1, "check_uncompressed_name: steps bounded by the buffer length");
    Ok(())
}

fn vec_is(v: &[u8], want: &[u8], n: usize) -> bool {
    if v.len() != n {
        return false;
    }
    let mut i = 0;
    let mut same = true;
    while i < n {
        same &= v[i] == want[i];
        i += 1;
    }
    same
}

/// C03 (leaf): the trusted name readers on every name the validator accepts
/// in buffers of up to N bytes: they rely on exactly what it checks.
pub fn readers<S: Src, const N: usize>(s: &mut S) -> Verdict {
    let buf: [u8; N] = sym_bytes::<S, N>(s);
    let len = s.usize();
    vassume!(len <= N);
    let off = s.usize();
    vassume!(off < len);
    let p = &buf[..len];
    cut_errors(1);
    let end = match Compress::check_compressed_name(p, off) {
        Ok(e) => e,
        Err(_) => return Ok(()),
    };
    cut_errors(0);
    // skip_name needs two more bytes after a name (a record header follows in a real packet)
    if end + 2 <= len {
        vassert!(RRIterator::skip_name(p, off) == end, "RRIterator::skip_name: the end of the name as written");
    }
    let mut w = [0u8; 256];
    let wl = spec::name_wire(p, off, &mut w);
    let mut out = Vec::new();
    let r = Compress::copy_uncompressed_name(&mut out, p, off);
    vassert!(r.name_len == wl && r.final_offset == end, "copy_uncompressed_name: length and end of the name");
    vassert!(vec_is(&out, &w, wl), "copy_uncompressed_name: the expanded name");
    vassert!(Compress::raw_name_len_after_decompression(p, off) == wl, "raw_name_len_after_decompression");
    vassert!(Compress::raw_name_len(&p[off..]) == end - off, "raw_name_len: length of the name as written");
    let mut t = [0u8; 300];
    let tl = spec::name_text(p, off, &mut t, false);
    let txt = Compress::raw_name_to_str(p, off);
    vassert!(vec_is(&txt, &t, tl), "raw_name_to_str: dotted text of the expanded name");
    vcover!(s, p[off] >= 0xc0, "name starting with a pointer");
    vcover!(s, wl > 3, "name of more than one label");
    Ok(())
}
