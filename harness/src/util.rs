//! Helpers shared by harness bodies.
use crate::src::*;
use dnssector::*;

/// Parses `bytes` with the real parser.
pub fn real_parse(bytes: &[u8]) -> Result<ParsedPacket, Error> {
    DNSSector::new(bytes.to_vec())?.parse()
}

/// `n` symbolic bytes.
pub fn sym_bytes<S: Src, const N: usize>(s: &mut S) -> [u8; N] {
    let mut a = [0u8; N];
    let mut i = 0;
    while i < N {
        a[i] = s.u8();
        i += 1;
    }
    a
}

/// Bounded fieldwise slice comparison (no memcmp loop of unknown bound).
pub fn slices_eq(a: &[u8], b: &[u8]) -> bool {
    if a.len() != b.len() {
        return false;
    }
    let mut i = 0;
    while i < a.len() {
        if a[i] != b[i] {
            return false;
        }
        i += 1;
    }
    true
}
