//! C01 / C02 / C18 on whole packets: `DNSSector::parse` on one skeleton, for all
//! values of its symbolic bytes.
use crate::skel::*;
use crate::spec;
use crate::src::*;
use crate::util::*;
use dnssector::*;

/// Steps allowed for a packet of `len` bytes (C18): a fixed multiple of the
/// length plus a constant. Derivation: every record costs one RR step and at
/// most 3 name walks (SOA); a walk costs at most one step per label or pointer
/// it visits, and a record occupies at least 11 bytes.
pub fn step_budget(len: usize) -> usize {
    40 * len + 300
}

pub fn parse_verdict<S: Src, K: Skel>(s: &mut S) -> Verdict {
    let p = K::build_cl(s);
    let mut lay = spec::Layout::new();
    let want = spec::accepts(&p, &mut lay);
    // the oracle must agree with what the skeleton is by construction
    let want_ok = match want {
        spec::Acc::Yes => true,
        spec::Acc::No => false,
        spec::Acc::TooBig => {
            vassert!(false, "ORACLE: skeleton larger than the oracle's tables");
            false
        }
    };
    vassert!(want_ok == K::ACCEPT, "ORACLE: spec::accepts disagrees with the skeleton's construction");
    errors::verif_steps_reset();
    let r = real_parse(&p);
    let st = errors::verif_steps();
    let steps = (st[0] + st[1] + st[2] + st[3]) as usize;
    vassert!(steps <= step_budget(p.len()), "parse: validation steps within the linear budget");
    match r {
        Ok(pp) => {
            vassert!(K::ACCEPT, "parse accepted a packet that is not well-formed");
            vassert!(slices_eq(pp.packet(), &p), "parse: the parsed packet holds exactly the input bytes");
            if want == spec::Acc::Yes {
                vassert!(pp.offset_question == Some(12), "parse: question offset");
                vassert!(pp.offset_answers == if lay.counts[1] > 0 { Some(lay.sect_start[1]) } else { None }, "parse: answer section offset");
                vassert!(pp.offset_nameservers == if lay.counts[2] > 0 { Some(lay.sect_start[2]) } else { None }, "parse: authority section offset");
                vassert!(pp.offset_additional == if lay.counts[3] > 0 { Some(lay.sect_start[3]) } else { None }, "parse: additional section offset");
                vassert!(pp.offset_edns == if lay.opt.is_some() { Some(lay.edns_start) } else { None }, "parse: EDNS offset");
                vassert!(pp.edns_count as usize == lay.nopts, "parse: EDNS option count");
            }
            vcover!(s, true, "accepted");
        }
        Err(_) => {
            vassert!(!K::ACCEPT, "parse rejected a well-formed packet");
            vcover!(s, true, "rejected");
        }
    }
    Ok(())
}

/// One *structural* byte of a well-formed skeleton made symbolic (all 256
/// values): a label length, a pointer byte, a type / rdlen / count / option
/// length byte. The library and the policy oracle must agree on every value,
/// in both directions; parse never panics; the step budget holds.
pub fn parse_symbyte<S: Src, K: Skel, const POS: usize>(s: &mut S) -> Verdict {
    let mut p = K::build_cl(s);
    let x = s.u8();
    p[POS] = x;
    let mut lay = spec::Layout::new();
    let want = spec::accepts(&p, &mut lay);
    vassume!(want != spec::Acc::TooBig);
    errors::verif_steps_reset();
    let r = real_parse(&p);
    let st = errors::verif_steps();
    let steps = (st[0] + st[1] + st[2] + st[3]) as usize;
    vassert!(steps <= step_budget(p.len()), "parse: validation steps within the linear budget");
    match r {
        Ok(pp) => {
            vassert!(want == spec::Acc::Yes, "parse accepted a packet that is not well-formed");
            vassert!(slices_eq(pp.packet(), &p), "parse: the parsed packet holds exactly the input bytes");
            vcover!(s, x != K::RECS[0].start as u8 && true, "accepted");
        }
        Err(_) => {
            vassert!(want == spec::Acc::No, "parse rejected a well-formed packet");
            vcover!(s, true, "rejected");
        }
    }
    Ok(())
}
