//! Input sources. Every harness body is generic over `Src`: under Kani the
//! values are `kani::any()` (symbolic), natively they are replayed from the byte
//! vectors that Kani's concrete playback printed for a counterexample.

pub type Verdict = Result<(), &'static str>;

pub trait Src {
    fn u8(&mut self) -> u8;
    fn u16(&mut self) -> u16;
    fn u32(&mut self) -> u32;
    fn usize(&mut self) -> usize;
    fn bool(&mut self) -> bool;
    /// A reachability witness: under Kani `kani::cover!`, natively recorded.
    fn cover(&mut self, cond: bool, what: &'static str);
    /// An assumption on the inputs drawn so far.
    fn assume(&mut self, cond: bool);
    /// A byte from the alphabet the parser admits inside labels.
    fn lab(&mut self) -> u8 {
        let c = self.u8();
        self.assume(crate::spec::label_char_ok(c));
        c
    }
    /// An ASCII letter of either case.
    fn alpha(&mut self) -> u8 {
        let c = self.u8();
        self.assume((c >= b'a' && c <= b'z') || (c >= b'A' && c <= b'Z'));
        c
    }
}

#[cfg(kani)]
pub struct KaniSrc;

#[cfg(kani)]
impl Src for KaniSrc {
    #[inline(always)]
    fn u8(&mut self) -> u8 {
        kani::any()
    }
    #[inline(always)]
    fn u16(&mut self) -> u16 {
        kani::any()
    }
    #[inline(always)]
    fn u32(&mut self) -> u32 {
        kani::any()
    }
    #[inline(always)]
    fn usize(&mut self) -> usize {
        kani::any()
    }
    #[inline(always)]
    fn bool(&mut self) -> bool {
        kani::any()
    }
    #[inline(always)]
    fn cover(&mut self, _cond: bool, _what: &'static str) {}
    #[inline(always)]
    fn assume(&mut self, cond: bool) {
        kani::assume(cond);
    }
}

/// Replays recorded values. Each `Vec<u8>` is one `kani::any()` in call order
/// (little endian), exactly as Kani's concrete playback prints them.
pub struct ReplaySrc {
    pub vals: Vec<Vec<u8>>,
    pub pos: usize,
    pub exhausted: bool,
    pub assumption_failed: bool,
    pub covered: Vec<&'static str>,
}

impl ReplaySrc {
    pub fn new(vals: Vec<Vec<u8>>) -> Self {
        ReplaySrc {
            vals,
            pos: 0,
            exhausted: false,
            assumption_failed: false,
            covered: Vec::new(),
        }
    }
    fn next(&mut self, n: usize) -> u64 {
        if self.pos >= self.vals.len() {
            self.exhausted = true;
            return 0;
        }
        let v = &self.vals[self.pos];
        self.pos += 1;
        let mut r = 0u64;
        for (i, b) in v.iter().take(n.min(8)).enumerate() {
            r |= (*b as u64) << (8 * i);
        }
        r
    }
}

impl Src for ReplaySrc {
    fn u8(&mut self) -> u8 {
        self.next(1) as u8
    }
    fn u16(&mut self) -> u16 {
        self.next(2) as u16
    }
    fn u32(&mut self) -> u32 {
        self.next(4) as u32
    }
    fn usize(&mut self) -> usize {
        self.next(8) as usize
    }
    fn bool(&mut self) -> bool {
        self.next(1) & 1 == 1
    }
    fn cover(&mut self, cond: bool, what: &'static str) {
        if cond && !self.covered.contains(&what) {
            self.covered.push(what);
        }
    }
    fn assume(&mut self, cond: bool) {
        if !cond {
            self.assumption_failed = true;
        }
    }
}

/// Property assertion. Under Kani an `assert!` (the role is the check's
/// description); natively returns the role as the failure.
#[macro_export]
macro_rules! vassert {
    ($cond:expr, $role:literal) => {{
        #[cfg(kani)]
        {
            assert!($cond, $role);
        }
        #[cfg(not(kani))]
        {
            if !($cond) {
                return Err($role);
            }
        }
    }};
}

/// Harness assumption. Natively a violated assumption means that the replayed
/// input is outside the harness's input space.
#[macro_export]
macro_rules! vassume {
    ($cond:expr) => {{
        #[cfg(kani)]
        {
            kani::assume($cond);
        }
        #[cfg(not(kani))]
        {
            if !($cond) {
                return Err("ASSUMPTION-NOT-MET");
            }
        }
    }};
}

/// Reachability witness.
#[macro_export]
macro_rules! vcover {
    ($s:expr, $cond:expr, $what:literal) => {{
        #[cfg(all(kani, not(feature = "nocover")))]
        {
            kani::cover!($cond, $what);
        }
        #[cfg(not(kani))]
        {
            $s.cover($cond, $what);
        }
    }};
}

/// Ends error paths right where the library raises the error (model checker
/// only; recorded as an assumption of the harness).
/// 0 = off, 1 = error paths are not explored (assume), 2 = an error is a
/// failed check (the harness expects success).
pub fn cut_errors(_mode: u8) {
    #[cfg(kani)]
    unsafe {
        dnssector::errors::verif_hooks::VERIF_CUT_ERRORS = _mode;
    }
}

/// The kind of a library error, independent of the error carrier in use.
#[derive(Debug, Clone, Copy, PartialEq, Eq)]
pub enum EK {
    PacketTooSmall,
    PacketTooLarge,
    UnsupportedClass,
    InternalError,
    InvalidName,
    InvalidPacket,
    UnsupportedRRType,
    UnsupportedRRClass,
    VoidRecord,
    PropertyNotFound,
    WrongAddressFamily,
    ParseError,
    Other,
}

#[cfg(kani)]
pub fn err_kind(e: &dnssector::Error) -> EK {
    use dnssector::errors::verif_light::*;
    match e.kind {
        K_PACKET_TOO_SMALL => EK::PacketTooSmall,
        K_PACKET_TOO_LARGE => EK::PacketTooLarge,
        K_UNSUPPORTED_CLASS => EK::UnsupportedClass,
        K_INTERNAL_ERROR => EK::InternalError,
        K_INVALID_NAME => EK::InvalidName,
        K_INVALID_PACKET => EK::InvalidPacket,
        K_UNSUPPORTED_RR_TYPE => EK::UnsupportedRRType,
        K_UNSUPPORTED_RR_CLASS => EK::UnsupportedRRClass,
        K_VOID_RECORD => EK::VoidRecord,
        K_PROPERTY_NOT_FOUND => EK::PropertyNotFound,
        K_WRONG_ADDRESS_FAMILY => EK::WrongAddressFamily,
        K_PARSE_ERROR => EK::ParseError,
        _ => EK::Other,
    }
}

#[cfg(not(kani))]
pub fn err_kind(e: &dnssector::Error) -> EK {
    use dnssector::DSError::*;
    match e.downcast_ref::<dnssector::DSError>() {
        None => EK::Other,
        Some(PacketTooSmall) => EK::PacketTooSmall,
        Some(PacketTooLarge) => EK::PacketTooLarge,
        Some(UnsupportedClass(_)) => EK::UnsupportedClass,
        Some(InternalError(_)) => EK::InternalError,
        Some(InvalidName(_)) => EK::InvalidName,
        Some(InvalidPacket(_)) => EK::InvalidPacket,
        Some(UnsupportedRRType(_)) => EK::UnsupportedRRType,
        Some(UnsupportedRRClass(_)) => EK::UnsupportedRRClass,
        Some(VoidRecord) => EK::VoidRecord,
        Some(PropertyNotFound) => EK::PropertyNotFound,
        Some(WrongAddressFamily) => EK::WrongAddressFamily,
        Some(ParseError) => EK::ParseError,
    }
}

/// Pseudo-random inputs used (a) to smoke-test harness bodies natively and
/// (b) as a cheap first attempt to exhibit natively a violation that the
/// solver has reported (decides nothing by itself).
pub struct SampleSrc {
    pub k: u32,
    pub mode: u32,
    pub assumption_failed: bool,
}

impl SampleSrc {
    pub fn new(seed: u32) -> Self {
        SampleSrc { k: seed.wrapping_mul(2654435761).wrapping_add(7), mode: seed % 5, assumption_failed: false }
    }
    fn step(&mut self) -> u32 {
        self.k = self.k.wrapping_mul(1103515245).wrapping_add(12345);
        self.k >> 8
    }
    fn letter(&mut self) -> u8 {
        let r = self.step();
        if r & 1 == 0 { b'a' + ((r >> 1) % 26) as u8 } else { b'A' + ((r >> 1) % 26) as u8 }
    }
}

impl Src for SampleSrc {
    fn u8(&mut self) -> u8 {
        match self.mode {
            0 => self.letter(),
            1 => 0x00,
            2 => 0xff,
            _ => self.step() as u8,
        }
    }
    fn u16(&mut self) -> u16 {
        match self.mode {
            1 => 0,
            2 => 0xffff,
            _ => self.step() as u16,
        }
    }
    fn u32(&mut self) -> u32 {
        match self.mode {
            1 => 0,
            2 => 0xffff_ffff,
            _ => self.step().wrapping_mul(2654435761),
        }
    }
    fn usize(&mut self) -> usize {
        match self.mode {
            1 => 0,
            2 => usize::MAX,
            3 => (self.step() % 40) as usize,
            _ => (self.step() % 9) as usize,
        }
    }
    fn bool(&mut self) -> bool {
        self.step() & 1 == 1
    }
    fn cover(&mut self, _c: bool, _w: &'static str) {}
    fn assume(&mut self, c: bool) {
        if !c {
            self.assumption_failed = true;
        }
    }
    fn lab(&mut self) -> u8 {
        self.letter()
    }
    fn alpha(&mut self) -> u8 {
        self.letter()
    }
}
