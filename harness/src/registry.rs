//! The list of harnesses: one Kani proof per entry, and a native lookup table
//! for the replayer.
use crate::src::*;

pub type Body = fn(&mut ReplaySrc) -> Verdict;
pub type SampleBody = fn(&mut SampleSrc) -> Verdict;

macro_rules! harnesses {
    ( $( $(#[$m:meta])* $name:ident => $body:expr ; )* ) => {
        #[cfg(kani)]
        pub mod proofs {
            use super::*;
            $(
                #[kani::proof]
                $(#[$m])*
                pub fn $name() {
                    let mut s = KaniSrc;
                    let _ = ($body)(&mut s);
                }
            )*
        }
        pub fn lookup(name: &str) -> Option<Body> {
            $( if name == stringify!($name) { return Some($body); } )*
            None
        }
        pub fn lookup_sample(name: &str) -> Option<SampleBody> {
            $( if name == stringify!($name) { return Some($body); } )*
            None
        }
        pub const NAMES: &[&str] = &[ $( stringify!($name), )* ];
    };
}

use crate::*;

#[cfg(feature = "c12")]
pub mod h_c12 {
    use super::*;
    harnesses! {
        #[kani::unwind(14)] c12_set_flags => p_c12::set_flags;
        #[kani::unwind(14)] c12_set_opcode => p_c12::set_opcode;
        #[kani::unwind(14)] c12_set_rcode => p_c12::set_rcode;
        #[kani::unwind(14)] c12_set_response => p_c12::set_response;
        #[kani::unwind(14)] c12_set_tid => p_c12::set_tid;
        #[kani::unwind(14)] c12_getters => p_c12::getters;
    }
}

#[cfg(any(feature = "c01", feature = "c02", feature = "c18"))]
pub mod h_names {
    use super::*;
    harnesses! {
        #[kani::unwind(10)] names_cc_8 => p_names::check_compressed::<_, 8>;
        #[kani::unwind(14)] names_cu_12 => p_names::check_uncompressed::<_, 12>;
    }
}

pub mod gen {
    use super::*;
    include!("registry_gen.rs");
}

pub fn lookup_any(name: &str) -> Option<Body> {
    #[cfg(feature = "c12")]
    if let Some(b) = h_c12::lookup(name) {
        return Some(b);
    }
    #[cfg(any(feature = "c01", feature = "c02", feature = "c18"))]
    if let Some(b) = h_names::lookup(name) {
        return Some(b);
    }
    gen::lookup(name)
}

pub fn lookup_sample_any(name: &str) -> Option<SampleBody> {
    #[cfg(feature = "c12")]
    if let Some(b) = h_c12::lookup_sample(name) {
        return Some(b);
    }
    #[cfg(any(feature = "c01", feature = "c02", feature = "c18"))]
    if let Some(b) = h_names::lookup_sample(name) {
        return Some(b);
    }
    gen::lookup_sample(name)
}

pub fn all_names() -> Vec<&'static str> {
    let mut v: Vec<&'static str> = Vec::new();
    #[cfg(feature = "c12")]
    v.extend_from_slice(h_c12::NAMES);
    #[cfg(any(feature = "c01", feature = "c02", feature = "c18"))]
    v.extend_from_slice(h_names::NAMES);
    v.extend(gen::names());
    v
}



