//! The list of harnesses: one Kani proof per entry, and a native lookup table
//! for the replayer.
use crate::src::*;

pub type Body = fn(&mut ReplaySrc) -> Verdict;
pub type SampleBody = fn(&mut SampleSrc) -> Verdict;

macro_rules! harnesses {
    ( $( $(#[$m:meta])* $name:ident => $body:expr ; )* ) => {
        #[cfg(kani)]
        pub mod proofs {
            use super::*;
            $(
                #[kani::proof]
                $(#[$m])*
                pub fn $name() {
                    let mut s = KaniSrc;
                    let _ = ($body)(&mut s);
                }
            )*
        }
        pub fn lookup(name: &str) -> Option<Body> {
            $( if name == stringify!($name) { return Some($body); } )*
            None
        }
        pub fn lookup_sample(name: &str) -> Option<SampleBody> {
            $( if name == stringify!($name) { return Some($body); } )*
            None
        }
        pub const NAMES: &[&str] = &[ $( stringify!($name), )* ];
    };
}

use crate::*;

#[cfg(feature = "c12")]
pub mod h_c12 {
    use super::*;
    harnesses! {
        #[kani::unwind(14)] c12_set_flags => p_c12::set_flags;
        #[kani::unwind(14)] c12_set_opcode => p_c12::set_opcode;
        #[kani::unwind(14)] c12_set_rcode => p_c12::set_rcode;
        #[kani::unwind(14)] c12_set_response => p_c12::set_response;
        #[kani::unwind(14)] c12_set_tid => p_c12::set_tid;
        #[kani::unwind(14)] c12_getters => p_c12::getters;
    }
}

#[cfg(any(feature = "c01", feature = "c02", feature = "c18"))]
pub mod h_names {
    use super::*;
    harnesses! {
        #[kani::unwind(10)] names_cc_8 => p_names::check_compressed::<_, 8>;
        #[kani::unwind(14)] names_cu_12 => p_names::check_uncompressed::<_, 12>;
    }
}

#[cfg(feature = "c14")]
pub mod h_c14 {
    use super::*;
    harnesses! {
        #[kani::unwind(14)] text_dots0 => p_text::from_str_dots::<_, 0, false>;
        #[kani::unwind(14)] text_dots1 => p_text::from_str_dots::<_, 1, false>;
        #[kani::unwind(14)] text_dots2 => p_text::from_str_dots::<_, 2, false>;
        #[kani::unwind(14)] text_dots3 => p_text::from_str_dots::<_, 3, false>;
        #[kani::unwind(14)] text_dots4 => p_text::from_str_dots::<_, 4, false>;
        #[kani::unwind(14)] text_dots5 => p_text::from_str_dots::<_, 5, false>;
        #[kani::unwind(14)] text_dots6 => p_text::from_str_dots::<_, 6, false>;
        #[kani::unwind(14)] text_dots7 => p_text::from_str_dots::<_, 7, false>;
        #[kani::unwind(14)] text_dots8 => p_text::from_str_dots::<_, 8, false>;
        #[kani::unwind(14)] text_dots9 => p_text::from_str_dots::<_, 9, false>;
        #[kani::unwind(14)] text_dots10 => p_text::from_str_dots::<_, 10, false>;
        #[kani::unwind(14)] text_dots11 => p_text::from_str_dots::<_, 11, false>;
        #[kani::unwind(16)] text_dots0_zone => p_text::from_str_dots::<_, 0, true>;
        #[kani::unwind(16)] text_dots4_zone => p_text::from_str_dots::<_, 4, true>;
        #[kani::unwind(16)] text_dots6_zone => p_text::from_str_dots::<_, 6, true>;
        #[kani::unwind(16)] text_dots10_zone => p_text::from_str_dots::<_, 10, true>;
        #[kani::unwind(12)] text_l1 => p_text::from_str_len::<_, 1, false>;
        #[kani::unwind(14)] text_ls0 => p_text::from_str_lastsym::<_, 0, false>;
        #[kani::unwind(14)] text_ls2 => p_text::from_str_lastsym::<_, 2, false>;
        #[kani::unwind(14)] text_ls4 => p_text::from_str_lastsym::<_, 4, false>;
        #[kani::unwind(14)] text_ls6 => p_text::from_str_lastsym::<_, 6, false>;
        #[kani::unwind(16)] text_ls2_zone => p_text::from_str_lastsym::<_, 2, true>;
        #[kani::unwind(16)] text_ls6_zone => p_text::from_str_lastsym::<_, 6, true>;
        #[kani::unwind(270)] text_b_61_100 => p_text::from_str_boundary::<_, 61, 100>;
        #[kani::unwind(270)] text_b_62_100 => p_text::from_str_boundary::<_, 62, 100>;
        #[kani::unwind(270)] text_b_63_100 => p_text::from_str_boundary::<_, 63, 100>;
        #[kani::unwind(270)] text_b_64_100 => p_text::from_str_boundary::<_, 64, 100>;
        #[kani::unwind(270)] text_b_10_252 => p_text::from_str_boundary::<_, 10, 252>;
        #[kani::unwind(270)] text_b_10_253 => p_text::from_str_boundary::<_, 10, 253>;
        #[kani::unwind(270)] text_b_10_254 => p_text::from_str_boundary::<_, 10, 254>;
        #[kani::unwind(270)] text_b_10_255 => p_text::from_str_boundary::<_, 10, 255>;
        #[kani::unwind(270)] text_b_10_256 => p_text::from_str_boundary::<_, 10, 256>;
        #[kani::unwind(120)] text_readback_zone => p_text::readback::<_, skel_gen::SkRAAaaa, true>;
        #[kani::unwind(120)] text_readback_dot => p_text::readback::<_, skel_gen::SkRAAaaa, false>;
    }
}

#[cfg(all(feature = "c14", feature = "thorough"))]
pub mod h_c14_t {
    use super::*;
    harnesses! {
        #[kani::unwind(8)] text_4_nozone => p_text::from_str::<_, 4, false>;
        #[kani::unwind(12)] text_4_zone => p_text::from_str::<_, 4, true>;
        #[kani::unwind(9)] text_5_nozone => p_text::from_str::<_, 5, false>;
        #[kani::unwind(14)] text_ls1 => p_text::from_str_lastsym::<_, 1, false>;
        #[kani::unwind(14)] text_ls3 => p_text::from_str_lastsym::<_, 3, false>;
        #[kani::unwind(14)] text_ls5 => p_text::from_str_lastsym::<_, 5, false>;
        #[kani::unwind(14)] text_ls7 => p_text::from_str_lastsym::<_, 7, false>;
        #[kani::unwind(14)] text_ls8 => p_text::from_str_lastsym::<_, 8, false>;
        #[kani::unwind(14)] text_ls9 => p_text::from_str_lastsym::<_, 9, false>;
        #[kani::unwind(14)] text_l2 => p_text::from_str_len::<_, 2, false>;
        #[kani::unwind(14)] text_l3 => p_text::from_str_len::<_, 3, false>;
        #[kani::unwind(10)] text_6_nozone => p_text::from_str::<_, 6, false>;
        #[kani::unwind(14)] text_6_zone => p_text::from_str::<_, 6, true>;
        #[kani::unwind(11)] text_7_nozone => p_text::from_str::<_, 7, false>;
        #[kani::unwind(270)] text_b_10_250 => p_text::from_str_boundary::<_, 10, 250>;
        #[kani::unwind(270)] text_b_10_251 => p_text::from_str_boundary::<_, 10, 251>;
        #[kani::unwind(270)] text_b_62_253 => p_text::from_str_boundary::<_, 62, 253>;
        #[kani::unwind(270)] text_b_63_255 => p_text::from_str_boundary::<_, 63, 255>;
    }
}

#[cfg(feature = "c17")]
pub mod h_c17 {
    use super::*;
    harnesses! {
        #[kani::unwind(40)] pure_build_case => p_pure::purity_build;
        #[kani::unwind(130)] pure_parse => p_pure::purity::<_, skel_gen::SkRMxSoa, skel_gen::SkRCnameChain, 0>;
        #[kani::unwind(200)] pure_uncompress => p_pure::purity::<_, skel_gen::SkRCnameChain, skel_gen::SkRMxSoa, 1>;
        #[kani::unwind(260)] pure_compress => p_pure::purity::<_, skel_gen::SkRNocompSoa, skel_gen::SkRNocomp2, 2>;
        #[kani::unwind(260)] pure_rename => p_pure::purity::<_, skel_gen::SkRNocompSoa, skel_gen::SkRNocomp2, 3>;
        #[kani::stub(backtrace::backtrace::trace, crate::p_synth::trace_stub)] #[kani::unwind(80)] pure_synth => p_pure::purity_synth;
    }
}

#[cfg(feature = "c10")]
pub mod h_c10 {
    use super::*;
    harnesses! {
        #[kani::unwind(20)] ins_size_8178_ar => p_size::insert_size::<_, 8178, 3>;
        #[kani::unwind(20)] ins_size_8179_ar => p_size::insert_size::<_, 8179, 3>;
        #[kani::unwind(20)] ins_size_8192_an => p_size::insert_size::<_, 8192, 1>;
        #[kani::unwind(20)] ins_size_8193_ns => p_size::insert_size::<_, 8193, 2>;
        #[kani::unwind(20)] ins_size_9000_ar => p_size::insert_size::<_, 9000, 3>;
        #[kani::unwind(20)] ins_size_12_an => p_size::insert_size::<_, 12, 1>;
    }
}

#[cfg(feature = "c03")]
pub mod h_c03 {
    use super::*;
    harnesses! {
    }
}

#[cfg(all(feature = "c03", feature = "thorough"))]
pub mod h_c03_t {
    use super::*;
    harnesses! {
        #[kani::unwind(8)] names_readers_5 => p_names::readers::<_, 5>;
        #[kani::unwind(9)] names_readers_6 => p_names::readers::<_, 6>;
        #[kani::unwind(11)] names_readers_8 => p_names::readers::<_, 8>;
    }
}

#[cfg(feature = "c15")]
pub mod h_c15 {
    use super::*;
    harnesses! {
        #[kani::unwind(130)] #[kani::stub(dnssector::c_abi::throw_err, crate::p_cabi::throw_err_stub)] cabi_read_an => p_cabi::read::<_, skel_gen::SkRAAaaa, 1>;
        #[kani::unwind(160)] #[kani::stub(dnssector::c_abi::throw_err, crate::p_cabi::throw_err_stub)] cabi_read_ar_opt => p_cabi::read::<_, skel_gen::SkROptmid, 3>;
        #[kani::unwind(160)] #[kani::stub(dnssector::c_abi::throw_err, crate::p_cabi::throw_err_stub)] cabi_read_ar_optfirst => p_cabi::read::<_, skel_gen::SkROptfirst, 3>;
        #[kani::unwind(130)] #[kani::stub(dnssector::c_abi::throw_err, crate::p_cabi::throw_err_stub)] cabi_write_ttl_ip_0 => p_cabi::write::<_, skel_gen::SkRAAaaa, 0, 0>;
        #[kani::unwind(130)] #[kani::stub(dnssector::c_abi::throw_err, crate::p_cabi::throw_err_stub)] cabi_write_ttl_ip_1 => p_cabi::write::<_, skel_gen::SkRAAaaa, 1, 0>;
        #[kani::unwind(130)] #[kani::stub(dnssector::c_abi::throw_err, crate::p_cabi::throw_err_stub)] cabi_set_raw_name => p_cabi::write::<_, skel_gen::SkRAAaaa, 0, 1>;
        #[kani::unwind(130)] #[kani::stub(dnssector::c_abi::throw_err, crate::p_cabi::throw_err_stub)] cabi_set_raw_name_bad => p_cabi::write::<_, skel_gen::SkRAAaaa, 0, 2>;
        #[kani::unwind(130)] #[kani::stub(dnssector::c_abi::throw_err, crate::p_cabi::throw_err_stub)] cabi_set_name => p_cabi::write::<_, skel_gen::SkRAAaaa, 1, 3>;
        #[kani::unwind(130)] #[kani::stub(dnssector::c_abi::throw_err, crate::p_cabi::throw_err_stub)] cabi_delete => p_cabi::write::<_, skel_gen::SkRAAaaa, 0, 4>;
        #[kani::unwind(130)] #[kani::stub(dnssector::c_abi::throw_err, crate::p_cabi::throw_err_stub)] cabi_copyout => p_cabi::copyout::<_, skel_gen::SkRAAaaa>;
        #[kani::unwind(260)] #[kani::stub(dnssector::c_abi::throw_err, crate::p_cabi::throw_err_stub)] cabi_rename => p_cabi::rename::<_, skel_gen::SkRNocompSoa>;
    }
}

#[cfg(feature = "c13")]
pub mod h_c13 {
    use super::*;
    harnesses! {
        #[kani::stub(backtrace::backtrace::trace, crate::p_synth::trace_stub)] #[kani::unwind(70)] synth_ct_bad_ds_odd => p_synth::concrete_text::<_, 0>;
        #[kani::stub(backtrace::backtrace::trace, crate::p_synth::trace_stub)] #[kani::unwind(70)] synth_ct_bad_ds_nonhex => p_synth::concrete_text::<_, 1>;
        #[kani::stub(backtrace::backtrace::trace, crate::p_synth::trace_stub)] #[kani::unwind(70)] synth_ct_bad_octet256 => p_synth::concrete_text::<_, 2>;
        #[kani::stub(backtrace::backtrace::trace, crate::p_synth::trace_stub)] #[kani::unwind(70)] synth_ct_bad_ttl_2e32 => p_synth::concrete_text::<_, 3>;
        #[kani::stub(backtrace::backtrace::trace, crate::p_synth::trace_stub)] #[kani::unwind(70)] synth_ct_bad_pref_2e16 => p_synth::concrete_text::<_, 4>;
        #[kani::stub(backtrace::backtrace::trace, crate::p_synth::trace_stub)] #[kani::unwind(70)] synth_ct_bad_txt_unbalanced => p_synth::concrete_text::<_, 5>;
        #[kani::stub(backtrace::backtrace::trace, crate::p_synth::trace_stub)] #[kani::unwind(70)] synth_ct_bad_txt_escape300 => p_synth::concrete_text::<_, 6>;
        #[kani::stub(backtrace::backtrace::trace, crate::p_synth::trace_stub)] #[kani::unwind(70)] synth_ct_bad_surplus_field => p_synth::concrete_text::<_, 7>;
        #[kani::stub(backtrace::backtrace::trace, crate::p_synth::trace_stub)] #[kani::unwind(70)] synth_ct_bad_missing_field => p_synth::concrete_text::<_, 8>;
        #[kani::stub(backtrace::backtrace::trace, crate::p_synth::trace_stub)] #[kani::unwind(70)] synth_ct_bad_class_ch => p_synth::concrete_text::<_, 9>;
        #[kani::stub(backtrace::backtrace::trace, crate::p_synth::trace_stub)] #[kani::unwind(70)] synth_ct_bad_aaaa => p_synth::concrete_text::<_, 10>;
        #[kani::stub(backtrace::backtrace::trace, crate::p_synth::trace_stub)] #[kani::unwind(70)] synth_ct_ok_a_boundary => p_synth::concrete_text::<_, 11>;
        #[kani::stub(backtrace::backtrace::trace, crate::p_synth::trace_stub)] #[kani::unwind(70)] synth_ct_ok_mx_boundary => p_synth::concrete_text::<_, 12>;
        #[kani::stub(backtrace::backtrace::trace, crate::p_synth::trace_stub)] #[kani::unwind(70)] synth_ct_ok_txt_escapes => p_synth::concrete_text::<_, 13>;
        #[kani::stub(backtrace::backtrace::trace, crate::p_synth::trace_stub)] #[kani::unwind(70)] synth_ct_ok_ds => p_synth::concrete_text::<_, 14>;
        #[kani::stub(backtrace::backtrace::trace, crate::p_synth::trace_stub)] #[kani::unwind(70)] synth_ct_ok_soa => p_synth::concrete_text::<_, 15>;
        #[kani::unwind(90)] synth_label_64_owner => p_synth::label_edge::<_, 64, 0>;
        #[kani::unwind(90)] synth_label_64_ns => p_synth::label_edge::<_, 64, 1>;
        #[kani::unwind(90)] synth_label_62_owner => p_synth::label_edge::<_, 62, 0>;
        #[kani::unwind(40)] synth_build_a => p_synth::builders::<_, 0>;
        #[kani::unwind(40)] synth_build_aaaa => p_synth::builders::<_, 1>;
        #[kani::unwind(40)] synth_build_ns => p_synth::builders::<_, 2>;
        #[kani::unwind(40)] synth_build_cname => p_synth::builders::<_, 3>;
        #[kani::unwind(40)] synth_build_ptr => p_synth::builders::<_, 4>;
        #[kani::unwind(40)] synth_build_mx => p_synth::builders::<_, 5>;
        #[kani::unwind(60)] synth_build_soa => p_synth::builders::<_, 6>;
        #[kani::unwind(40)] synth_build_ds => p_synth::builders::<_, 7>;
        #[kani::unwind(40)] synth_build_txt => p_synth::builders::<_, 8>;
        #[kani::unwind(300)] synth_txt_255 => p_synth::txt_chunks::<_, 255>;
        #[kani::unwind(300)] synth_txt_256 => p_synth::txt_chunks::<_, 256>;
        #[kani::stub(backtrace::backtrace::trace, crate::p_synth::trace_stub)] #[kani::unwind(60)] synth_tpl_octet_edge => p_synth::template::<_, 2>;
        #[kani::stub(backtrace::backtrace::trace, crate::p_synth::trace_stub)] #[kani::unwind(140)] synth_insert_a_an => p_synth::insert_text::<_, skel_gen::SkRAAaaa, 1, 0>;
        #[kani::stub(backtrace::backtrace::trace, crate::p_synth::trace_stub)] #[kani::unwind(140)] synth_insert_mx_ns => p_synth::insert_text::<_, skel_gen::SkRAAaaa, 2, 5>;
    }
}

#[cfg(all(feature = "c13", feature = "thorough"))]
pub mod h_c13_t {
    use super::*;
    harnesses! {
        #[kani::stub(backtrace::backtrace::trace, crate::p_synth::trace_stub)] #[kani::unwind(60)] synth_tpl_ns_lastchar => p_synth::template::<_, 12>;
        #[kani::stub(backtrace::backtrace::trace, crate::p_synth::trace_stub)] #[kani::unwind(60)] synth_tpl_ttl_digit => p_synth::template::<_, 0>;
        #[kani::stub(backtrace::backtrace::trace, crate::p_synth::trace_stub)] #[kani::unwind(60)] synth_tpl_ttl_edge => p_synth::template::<_, 1>;
        #[kani::stub(backtrace::backtrace::trace, crate::p_synth::trace_stub)] #[kani::unwind(60)] synth_tpl_separator => p_synth::template::<_, 3>;
        #[kani::stub(backtrace::backtrace::trace, crate::p_synth::trace_stub)] #[kani::unwind(60)] synth_tpl_keyword_case => p_synth::template::<_, 4>;
        #[kani::stub(backtrace::backtrace::trace, crate::p_synth::trace_stub)] #[kani::unwind(60)] synth_tpl_mx_pref_edge => p_synth::template::<_, 5>;
        #[kani::stub(backtrace::backtrace::trace, crate::p_synth::trace_stub)] #[kani::unwind(60)] synth_tpl_txt_char => p_synth::template::<_, 6>;
        #[kani::stub(backtrace::backtrace::trace, crate::p_synth::trace_stub)] #[kani::unwind(60)] synth_tpl_txt_escape => p_synth::template::<_, 7>;
        #[kani::stub(backtrace::backtrace::trace, crate::p_synth::trace_stub)] #[kani::unwind(60)] synth_tpl_ds_hex => p_synth::template::<_, 8>;
        #[kani::stub(backtrace::backtrace::trace, crate::p_synth::trace_stub)] #[kani::unwind(60)] synth_tpl_owner_char => p_synth::template::<_, 9>;
        #[kani::stub(backtrace::backtrace::trace, crate::p_synth::trace_stub)] #[kani::unwind(80)] synth_tpl_soa_counter => p_synth::template::<_, 10>;
        #[kani::stub(backtrace::backtrace::trace, crate::p_synth::trace_stub)] #[kani::unwind(60)] synth_tpl_txt_escape_first => p_synth::template::<_, 11>;
        #[kani::stub(backtrace::backtrace::trace, crate::p_synth::trace_stub)] #[kani::unwind(12)] synth_arbitrary_3 => p_synth::arbitrary::<_, 3>;
        #[kani::stub(backtrace::backtrace::trace, crate::p_synth::trace_stub)] #[kani::unwind(140)] synth_insert_txt_ar => p_synth::insert_text::<_, skel_gen::SkRAAaaa, 3, 8>;
        #[kani::stub(backtrace::backtrace::trace, crate::p_synth::trace_stub)] #[kani::unwind(12)] synth_arbitrary_4 => p_synth::arbitrary::<_, 4>;
        #[kani::stub(backtrace::backtrace::trace, crate::p_synth::trace_stub)] #[kani::unwind(12)] synth_arbitrary_5 => p_synth::arbitrary::<_, 5>;
        #[kani::unwind(300)] synth_txt_0 => p_synth::txt_chunks::<_, 0>;
        #[kani::unwind(300)] synth_txt_1 => p_synth::txt_chunks::<_, 1>;
        #[kani::unwind(600)] synth_txt_510 => p_synth::txt_chunks::<_, 510>;
        #[kani::unwind(600)] synth_txt_511 => p_synth::txt_chunks::<_, 511>;
        #[kani::stub(backtrace::backtrace::trace, crate::p_synth::trace_stub)] #[kani::unwind(140)] synth_insert_aaaa_an => p_synth::insert_text::<_, skel_gen::SkRAAaaa, 1, 1>;
        #[kani::stub(backtrace::backtrace::trace, crate::p_synth::trace_stub)] #[kani::unwind(140)] synth_insert_ns_ns => p_synth::insert_text::<_, skel_gen::SkRAAaaa, 2, 2>;
        #[kani::stub(backtrace::backtrace::trace, crate::p_synth::trace_stub)] #[kani::unwind(140)] synth_insert_cname_an => p_synth::insert_text::<_, skel_gen::SkRAAaaa, 1, 3>;
        #[kani::stub(backtrace::backtrace::trace, crate::p_synth::trace_stub)] #[kani::unwind(140)] synth_insert_ptr_ar => p_synth::insert_text::<_, skel_gen::SkRAAaaa, 3, 4>;
        #[kani::stub(backtrace::backtrace::trace, crate::p_synth::trace_stub)] #[kani::unwind(160)] synth_insert_soa_ns => p_synth::insert_text::<_, skel_gen::SkRAAaaa, 2, 6>;
        #[kani::stub(backtrace::backtrace::trace, crate::p_synth::trace_stub)] #[kani::unwind(140)] synth_insert_ds_an => p_synth::insert_text::<_, skel_gen::SkRAAaaa, 1, 7>;
    }
}

pub mod gen {
    use super::*;
    include!("registry_gen.rs");
}

pub fn lookup_any(name: &str) -> Option<Body> {
    #[cfg(feature = "c12")]
    if let Some(b) = h_c12::lookup(name) {
        return Some(b);
    }
    #[cfg(any(feature = "c01", feature = "c02", feature = "c18"))]
    if let Some(b) = h_names::lookup(name) {
        return Some(b);
    }
    #[cfg(feature = "c17")]
    if let Some(b) = h_c17::lookup(name) {
        return Some(b);
    }
    #[cfg(feature = "c10")]
    if let Some(b) = h_c10::lookup(name) {
        return Some(b);
    }
    #[cfg(feature = "c03")]
    if let Some(b) = h_c03::lookup(name) {
        return Some(b);
    }
    #[cfg(all(feature = "c03", feature = "thorough"))]
    if let Some(b) = h_c03_t::lookup(name) {
        return Some(b);
    }
    #[cfg(feature = "c15")]
    if let Some(b) = h_c15::lookup(name) {
        return Some(b);
    }
    #[cfg(feature = "c13")]
    if let Some(b) = h_c13::lookup(name) {
        return Some(b);
    }
    #[cfg(all(feature = "c13", feature = "thorough"))]
    if let Some(b) = h_c13_t::lookup(name) {
        return Some(b);
    }
    #[cfg(feature = "c14")]
    if let Some(b) = h_c14::lookup(name) {
        return Some(b);
    }
    #[cfg(all(feature = "c14", feature = "thorough"))]
    if let Some(b) = h_c14_t::lookup(name) {
        return Some(b);
    }
    gen::lookup(name)
}

pub fn lookup_sample_any(name: &str) -> Option<SampleBody> {
    #[cfg(feature = "c12")]
    if let Some(b) = h_c12::lookup_sample(name) {
        return Some(b);
    }
    #[cfg(any(feature = "c01", feature = "c02", feature = "c18"))]
    if let Some(b) = h_names::lookup_sample(name) {
        return Some(b);
    }
    #[cfg(feature = "c17")]
    if let Some(b) = h_c17::lookup_sample(name) {
        return Some(b);
    }
    #[cfg(feature = "c10")]
    if let Some(b) = h_c10::lookup_sample(name) {
        return Some(b);
    }
    #[cfg(feature = "c03")]
    if let Some(b) = h_c03::lookup_sample(name) {
        return Some(b);
    }
    #[cfg(all(feature = "c03", feature = "thorough"))]
    if let Some(b) = h_c03_t::lookup_sample(name) {
        return Some(b);
    }
    #[cfg(feature = "c15")]
    if let Some(b) = h_c15::lookup_sample(name) {
        return Some(b);
    }
    #[cfg(feature = "c13")]
    if let Some(b) = h_c13::lookup_sample(name) {
        return Some(b);
    }
    #[cfg(all(feature = "c13", feature = "thorough"))]
    if let Some(b) = h_c13_t::lookup_sample(name) {
        return Some(b);
    }
    #[cfg(feature = "c14")]
    if let Some(b) = h_c14::lookup_sample(name) {
        return Some(b);
    }
    #[cfg(all(feature = "c14", feature = "thorough"))]
    if let Some(b) = h_c14_t::lookup_sample(name) {
        return Some(b);
    }
    gen::lookup_sample(name)
}

pub fn all_names() -> Vec<&'static str> {
    let mut v: Vec<&'static str> = Vec::new();
    #[cfg(feature = "c12")]
    v.extend_from_slice(h_c12::NAMES);
    #[cfg(any(feature = "c01", feature = "c02", feature = "c18"))]
    v.extend_from_slice(h_names::NAMES);
    #[cfg(feature = "c17")]
    v.extend_from_slice(h_c17::NAMES);
    #[cfg(feature = "c10")]
    v.extend_from_slice(h_c10::NAMES);
    #[cfg(feature = "c03")]
    v.extend_from_slice(h_c03::NAMES);
    #[cfg(all(feature = "c03", feature = "thorough"))]
    v.extend_from_slice(h_c03_t::NAMES);
    #[cfg(feature = "c15")]
    v.extend_from_slice(h_c15::NAMES);
    #[cfg(feature = "c13")]
    v.extend_from_slice(h_c13::NAMES);
    #[cfg(all(feature = "c13", feature = "thorough"))]
    v.extend_from_slice(h_c13_t::NAMES);
    #[cfg(feature = "c14")]
    v.extend_from_slice(h_c14::NAMES);
    #[cfg(all(feature = "c14", feature = "thorough"))]
    v.extend_from_slice(h_c14_t::NAMES);
    v.extend(gen::names());
    v
}



