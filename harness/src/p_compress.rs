//! C06 — compression keeps the message, stays valid and never grows the packet.
use crate::skel::*;
use crate::spec;
use crate::src::*;
use crate::util::*;
use dnssector::*;

/// MODE 0: output accepted, not longer, decodes to the same message (names
/// up to ASCII case, question name byte-identical);
/// MODE 1: decompressing the output gives back the input up to name case.
pub fn compress<S: Src, K: Skel, const MODE: usize>(s: &mut S) -> Verdict {
    // label characters concrete (mixed case by construction): the suffix
    // dictionary branches on every label comparison
    let p = K::build_cl(s);
    let mut lay = spec::Layout::new();
    if spec::accepts(&p, &mut lay) != spec::Acc::Yes {
        vassert!(false, "ORACLE: spec::accepts rejects a skeleton that is well-formed by construction");
        return Ok(());
    }
    vassert!(!spec::has_pointer(&p, &lay), "ORACLE: the skeleton is pointer-free");
    // every library call below is expected to succeed: an error is a failed check
    cut_errors(2);
    let r = Compress::compress(&p);
    vassert!(r.is_ok(), "compress succeeds on an accepted pointer-free packet");
    let out = match r {
        Ok(o) => o,
        Err(_) => return Ok(()),
    };
    vassert!(out.len() <= p.len(), "compress never grows the packet");
    if MODE == 0 {
        let pr = real_parse(&out);
        vassert!(pr.is_ok(), "compress: the output is accepted by the parser");
        cut_errors(0);
        let mut olay = spec::Layout::new();
        if spec::accepts(&out, &mut olay) != spec::Acc::Yes {
            vassert!(false, "compress: the output is well-formed under the policy");
            return Ok(());
        }
        vassert!(spec::bytes_eq(&p, 0, &out, 0, 12), "compress: identical header and counts");
        vassert!(olay.nrec == lay.nrec, "compress: same number of records (OPT included)");
        let mut i = 0;
        while i < lay.nrec && i < olay.nrec {
            vassert!(spec::rec_eq(&p, &lay.recs[i], &out, &olay.recs[i], true), "compress: record decodes to the same record (names up to case; every pointer designates its suffix)");
            i += 1;
        }
        vassert!(spec::names_eq(&p, lay.recs[0].start, &out, olay.recs[0].start, false), "compress: question name byte-identical");
        vcover!(s, out.len() < p.len(), "a pointer was emitted");
    } else {
        let u = Compress::uncompress(&out);
        cut_errors(0);
        match u {
            Ok(u) => {
                vassert!(u.len() == p.len(), "uncompress(compress(p)): same length as p");
                // both are pointer-free with the same structure: compare decoded records
                let mut i = 0;
                while i < lay.nrec {
                    vassert!(spec::rec_eq(&p, &lay.recs[i], &u, &lay.recs[i], true), "uncompress(compress(p)) equals p up to name case");
                    i += 1;
                }
                vassert!(spec::bytes_eq(&p, 0, &u, 0, 12), "uncompress(compress(p)): identical header");
            }
            Err(_) => vassert!(false, "uncompress(compress(p)) succeeds"),
        }
    }
    vcover!(s, true, "end");
    Ok(())
}
