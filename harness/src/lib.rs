//! Verification harnesses for jedisct1/dnssector (solver-based: Kani/CBMC).
//! Every harness body is an ordinary generic function over an input source
//! (`src::Src`); `proofs` instantiates them with symbolic inputs under Kani and
//! `registry` with replayed inputs natively.
#![allow(clippy::all)]
#![allow(dead_code)]
#![allow(unused_imports)]
#![allow(unused_variables)]
#![allow(static_mut_refs)]

#[macro_use]
pub mod src;
pub mod spec;
pub mod util;

pub mod skel;
pub mod skel_gen;

pub mod p_c12;
pub mod p_names;
pub mod p_parse;
pub mod p_iter;
pub mod p_summary;
pub mod p_uncompress;
pub mod p_compress;
pub mod p_rename;
pub mod p_view;
pub mod p_mutate;
pub mod p_text;
pub mod p_synth;
pub mod p_cabi;
pub mod p_pure;
pub mod p_size;
pub mod rn_gen;

#[macro_use]
pub mod registry;
