//! C03 — every accepted packet reads back completely and faithfully via the
//! iterators. One skeleton, all values of its symbolic bytes.
use crate::skel::*;
use crate::spec;
use crate::src::*;
use crate::util::*;
use dnssector::*;
use std::net::IpAddr;

fn vec_is(v: &[u8], want: &[u8], n: usize) -> bool {
    if v.len() != n {
        return false;
    }
    let mut i = 0;
    while i < n {
        if v[i] != want[i] {
            return false;
        }
        i += 1;
    }
    true
}

fn sect_of(sec: u8) -> Section {
    match sec {
        0 => Section::Question,
        1 => Section::Answer,
        2 => Section::NameServers,
        _ => Section::Additional,
    }
}

/// all accessors of a response-section cursor against the record `r`
fn check_rr<S: Src>(s: &mut S, it: &ResponseIterator<'_>, p: &[u8], r: &SkRec) -> Verdict {
    vassert!(it.offset() == Some(r.start), "iterator: cursor at the record's offset");
    vassert!(it.offset_next() == r.next, "iterator: next offset is the record's end");
    let mut text = [0u8; 300];
    let tn = spec::name_text(p, r.start, &mut text, true);
    let name = it.name();
    vassert!(vec_is(&name, &text, tn), "name(): lowercase dotted owner name");
    let mut wire = [0u8; 256];
    let wn = spec::name_wire(p, r.start, &mut wire);
    let mut raw = Vec::new();
    let rl = it.copy_raw_name(&mut raw);
    vassert!(rl == wn && vec_is(&raw, &wire, wn), "copy_raw_name(): expanded raw owner name");
    vassert!(it.rr_type() == spec::rd16(p, r.name_end), "rr_type()");
    vassert!(it.rr_class() == spec::rd16(p, r.name_end + 2), "rr_class()");
    vassert!(it.rr_ttl() == spec::rd32(p, r.name_end + 4), "rr_ttl()");
    vassert!(it.rr_rdlen() == r.rdlen, "rr_rdlen()");
    let rd = r.name_end + 10;
    match it.rr_ip() {
        Ok(IpAddr::V4(a)) => {
            vassert!(r.rtype == spec::T_A, "rr_ip(): V4 only for A");
            let o = a.octets();
            vassert!(o[0] == p[rd] && o[1] == p[rd + 1] && o[2] == p[rd + 2] && o[3] == p[rd + 3], "rr_ip(): IPv4 address bytes");
        }
        Ok(IpAddr::V6(a)) => {
            vassert!(r.rtype == spec::T_AAAA, "rr_ip(): V6 only for AAAA");
            let o = a.octets();
            vassert!(slices_eq(&o, &p[rd..rd + 16]), "rr_ip(): IPv6 address bytes");
        }
        Err(_) => {
            vassert!(r.rtype != spec::T_A && r.rtype != spec::T_AAAA, "rr_ip(): error only for non-address records");
        }
    }
    match it.rr_rd() {
        Ok(RawRRData::IpAddr(_)) => {
            vassert!(r.rtype == spec::T_A || r.rtype == spec::T_AAAA, "rr_rd(): address only for A/AAAA");
        }
        Ok(RawRRData::Data(d)) => {
            vassert!(r.rtype != spec::T_A && r.rtype != spec::T_AAAA, "rr_rd(): raw data for other types");
            vassert!(slices_eq(d, &p[rd..rd + r.rdlen]), "rr_rd(): the record's data bytes");
        }
        Err(_) => {
            vassert!(false, "rr_rd(): never fails");
        }
    }
    match it.current_section() {
        Ok(sec) => vassert!(sec == sect_of(r.section), "current_section()"),
        Err(_) => vassert!(false, "current_section(): never fails on a live cursor"),
    }
    Ok(())
}

/// PASS: 0 question, 1 answer, 2 authority, 3 additional (OPT skipped),
/// 4 additional (OPT included), 5 EDNS options
pub fn walk<S: Src, K: Skel, const PASS: u8>(s: &mut S) -> Verdict {
    // label characters concrete: raw_name_to_str branches on every label byte
    // ('.' escaping), which would make every later length symbolic; symbolic
    // label content is covered by the leaf harnesses in p_names
    let p = K::build_cl(s);
    cut_errors(2);
    let r = real_parse(&p);
    cut_errors(0);
    vassert!(r.is_ok(), "accepted: the skeleton is well-formed");
    let mut pp = match r {
        Ok(pp) => pp,
        Err(_) => return Ok(()),
    };
    // question
    if PASS == 0 {
        let q = &K::RECS[0];
        let mut n = 0;
        let mut it = pp.into_iter_question();
        while let Some(item) = it {
            vassert!(n == 0, "question iterator: exactly one question");
            vassert!(item.offset() == Some(q.start), "question iterator: offset");
            let mut text = [0u8; 300];
            let tn = spec::name_text(&p, q.start, &mut text, true);
            let name = item.name();
            vassert!(vec_is(&name, &text, tn), "question name(): lowercase dotted name");
            let mut wire = [0u8; 256];
            let wn = spec::name_wire(&p, q.start, &mut wire);
            let mut raw = Vec::new();
            let rl = item.copy_raw_name(&mut raw);
            vassert!(rl == wn && vec_is(&raw, &wire, wn), "question copy_raw_name()");
            vassert!(item.rr_type() == spec::rd16(&p, q.name_end), "question rr_type()");
            vassert!(item.rr_class() == spec::rd16(&p, q.name_end + 2), "question rr_class()");
            match item.current_section() {
                Ok(sec) => vassert!(sec == Section::Question, "question current_section()"),
                Err(_) => vassert!(false, "question current_section() fails"),
            }
            n += 1;
            it = item.next();
        }
        vassert!(n == 1, "question iterator: visited the question");
    }
    // answer / authority / additional, OPT skipped
    let mut sec = 1u8;
    while sec <= 3 {
        if sec != PASS {
            sec += 1;
            continue;
        }
        let mut k = 1; // index into RECS
        let mut it = match sec {
            1 => pp.into_iter_answer(),
            2 => pp.into_iter_nameservers(),
            _ => pp.into_iter_additional(),
        };
        let mut visited = 0;
        while let Some(item) = it {
            // next expected record of this section that is not OPT
            while k < K::RECS.len() && (K::RECS[k].section != sec || K::RECS[k].rtype == spec::T_OPT) {
                k += 1;
            }
            vassert!(k < K::RECS.len(), "iterator (OPT skipped): yields no more records than present");
            check_rr(s, &item, &p, &K::RECS[k])?;
            k += 1;
            visited += 1;
            it = item.next();
        }
        let mut want = 0;
        let mut j = 1;
        while j < K::RECS.len() {
            if K::RECS[j].section == sec && K::RECS[j].rtype != spec::T_OPT {
                want += 1;
            }
            j += 1;
        }
        vassert!(visited == want, "iterator (OPT skipped): visits every non-OPT record of the section");
        sec += 1;
    }
    // additional including OPT
    if PASS == 4 {
        let mut k = 1;
        let mut visited = 0;
        let mut it = pp.into_iter_additional_including_opt();
        while let Some(item) = it {
            while k < K::RECS.len() && K::RECS[k].section != 3 {
                k += 1;
            }
            vassert!(k < K::RECS.len(), "iterator (OPT included): yields no more records than present");
            let r = &K::RECS[k];
            vassert!(item.offset() == Some(r.start), "iterator (OPT included): cursor at the record's offset");
            vassert!(item.rr_type() == r.rtype, "iterator (OPT included): rr_type()");
            vassert!(item.rr_rdlen() == r.rdlen, "iterator (OPT included): rr_rdlen()");
            if r.rtype != spec::T_OPT {
                check_rr(s, &item, &p, r)?;
            }
            k += 1;
            visited += 1;
            it = item.next_including_opt();
        }
        let mut want = 0;
        let mut j = 1;
        while j < K::RECS.len() {
            if K::RECS[j].section == 3 {
                want += 1;
            }
            j += 1;
        }
        vassert!(visited == want, "iterator (OPT included): visits every record of the additional section");
    }
    // EDNS options
    if PASS == 5 {
        let mut n = 0usize;
        let mut it = pp.into_iter_edns();
        while let Some(item) = it {
            vassert!(n < K::OPTS.len(), "EDNS iterator: yields no more options than present");
            vassert!(item.offset() == Some(K::OPTS[n].0), "EDNS iterator: option offset");
            vassert!(item.offset_next() == K::OPTS[n].1, "EDNS iterator: option end");
            n += 1;
            it = item.next();
        }
        let want = K::OPTS.len();
        vassert!(n == want, "EDNS iterator: visits every option");
    }
    vassert!(slices_eq(pp.packet(), &p), "iterating never alters a byte of the packet");
    vcover!(s, true, "end");
    Ok(())
}
