//! Reference models ("oracles"), written from the property statements and
//! RFC 1035 / RFC 6891. No dnssector code is used in this file. Everything is
//! allocation-free so that it is cheap under symbolic execution.

pub const T_A: u16 = 1;
pub const T_NS: u16 = 2;
pub const T_CNAME: u16 = 5;
pub const T_SOA: u16 = 6;
pub const T_PTR: u16 = 12;
pub const T_MX: u16 = 15;
pub const T_TXT: u16 = 16;
pub const T_AAAA: u16 = 28;
pub const T_DNAME: u16 = 39;
pub const T_OPT: u16 = 41;
pub const T_DS: u16 = 43;

pub const MAX_NAME: usize = 255;
pub const MAX_LABEL: usize = 63;
pub const MAX_PTRS: usize = 16;

#[inline]
pub fn rd16(p: &[u8], o: usize) -> u16 {
    ((p[o] as u16) << 8) | (p[o + 1] as u16)
}
#[inline]
pub fn rd32(p: &[u8], o: usize) -> u32 {
    ((p[o] as u32) << 24) | ((p[o + 1] as u32) << 16) | ((p[o + 2] as u32) << 8) | (p[o + 3] as u32)
}

/// Is `c` allowed inside a label of a name that may be compressed?
#[inline]
pub fn label_char_ok(c: u8) -> bool {
    !(c < 32 || c == 127 || c == b'.' || c == b'\\')
}

/// Name policy of C02. Returns the offset right after the name as written at
/// `off` (after the first pointer, if any), or None when the name is not
/// well-formed.
///
/// * labels of at most 63 bytes, the whole (expanded) name at most 255 bytes
///   counting every length byte and the root label;
/// * a label and the byte after it must lie inside the packet;
/// * `allow_ptr`: compression pointers are permitted, at most 16 per name;
///   each must point strictly backward: below the start of the name and below
///   every earlier pointer target, and the part of the name read at the
///   target must end (root label or next pointer) before reaching the part
///   read before; a pointer must not designate a root label;
///   label bytes must not be control characters, '.' or '\\';
/// * `!allow_ptr` (DNAME target): no pointers, any label bytes.
pub fn name_end(p: &[u8], off: usize, allow_ptr: bool) -> Option<usize> {
    name_end_x(p, off, allow_ptr, allow_ptr)
}

/// `chars`: apply the label character policy (when false only the structure
/// of the name is checked; used for layouts of packets with symbolic label
/// characters that the real parser has already accepted)
pub fn name_end_x(p: &[u8], off: usize, allow_ptr: bool, chars: bool) -> Option<usize> {
    let n = p.len();
    if off >= n {
        return None;
    }
    let mut total = 0usize; // expanded length so far
    let mut cur = off; // where we read now
    let mut floor = off; // lowest segment start so far
    let mut limit = n; // label starts must stay below this
    let mut ptrs = 0usize;
    let mut after: Option<usize> = None;
    loop {
        if cur >= limit {
            return None;
        }
        let b = p[cur];
        if b >= 0xc0 {
            if !allow_ptr {
                return None;
            }
            if ptrs >= MAX_PTRS {
                return None;
            }
            ptrs += 1;
            if cur + 1 >= n {
                return None;
            }
            let target = (((b & 0x3f) as usize) << 8) | (p[cur + 1] as usize);
            if target >= floor {
                return None;
            }
            if p[target] == 0 {
                return None;
            }
            if after.is_none() {
                after = Some(cur + 2);
            }
            limit = floor;
            floor = target;
            cur = target;
            continue;
        }
        if b > MAX_LABEL as u8 {
            return None;
        }
        let l = b as usize;
        // the label and one more byte must be inside the packet
        if cur + l >= n {
            return None;
        }
        total += l + 1;
        if total > MAX_NAME {
            return None;
        }
        if chars {
            let mut j = 0;
            while j < l {
                if !label_char_ok(p[cur + 1 + j]) {
                    return None;
                }
                j += 1;
            }
        }
        cur += l + 1;
        if l == 0 {
            break;
        }
    }
    Some(after.unwrap_or(cur))
}

/// Number of loop steps a walk over the name at `off` needs at most:
/// one per label (including root) plus one per pointer.
pub fn name_steps(p: &[u8], off: usize) -> usize {
    let mut steps = 0;
    let mut cur = off;
    let mut guard = 0;
    while guard < 300 {
        guard += 1;
        steps += 1;
        let b = p[cur];
        if b >= 0xc0 {
            cur = (((b & 0x3f) as usize) << 8) | (p[cur + 1] as usize);
            continue;
        }
        if b == 0 {
            break;
        }
        cur += b as usize + 1;
    }
    steps
}

pub const MAX_RR: usize = 10;
pub const MAX_OPTS: usize = 6;

#[derive(Clone, Copy, Debug, PartialEq, Eq)]
pub struct Rec {
    pub start: usize,
    pub name_end: usize,
    pub rtype: u16,
    pub rdlen: usize,
    pub next: usize,
    /// 0 question, 1 answer, 2 authority, 3 additional
    pub section: u8,
}

pub const NOREC: Rec = Rec {
    start: 0,
    name_end: 0,
    rtype: 0,
    rdlen: 0,
    next: 0,
    section: 0,
};

#[derive(Clone, Copy, Debug, PartialEq, Eq)]
pub struct Layout {
    pub counts: [usize; 4],
    /// start of each section (meaningful when its count > 0)
    pub sect_start: [usize; 4],
    pub nrec: usize,
    pub recs: [Rec; MAX_RR],
    /// index into recs of the OPT record
    pub opt: Option<usize>,
    /// start / end of the OPT options area
    pub edns_start: usize,
    pub edns_end: usize,
    pub nopts: usize,
    pub opts: [(usize, usize); MAX_OPTS], // (start, next)
}

#[derive(Clone, Copy, Debug, PartialEq, Eq)]
pub enum Acc {
    /// well-formed; layout filled in
    Yes,
    /// not well-formed
    No,
    /// well-formed prefix but more records/options than the fixed tables hold
    TooBig,
}

impl Layout {
    pub const fn new() -> Layout {
        Layout {
            counts: [0; 4],
            sect_start: [0; 4],
            nrec: 0,
            recs: [NOREC; MAX_RR],
            opt: None,
            edns_start: 0,
            edns_end: 0,
            nopts: 0,
            opts: [(0, 0); MAX_OPTS],
        }
    }
}

/// Acceptance policy of C02 for a whole packet. The layout is written to
/// `lay` (an out-parameter rather than an enum payload: the solver's constant
/// propagation does not see through large enum payloads).
pub fn accepts(p: &[u8], lay: &mut Layout) -> Acc {
    accepts_x(p, lay, true)
}

/// The structure of a packet (everything in `accepts` except the label
/// character policy).
pub fn layout_of(p: &[u8], lay: &mut Layout) -> Acc {
    accepts_x(p, lay, false)
}

pub fn accepts_x(p: &[u8], lay: &mut Layout, chars: bool) -> Acc {
    let n = p.len();
    if n < 12 {
        return Acc::No;
    }
    let is_response = p[2] & 0x80 != 0;
    let qd = rd16(p, 4) as usize;
    let an = rd16(p, 6) as usize;
    let ns = rd16(p, 8) as usize;
    let ar = rd16(p, 10) as usize;
    if qd != 1 {
        return Acc::No;
    }
    if !is_response && (an > 0 || ns > 0) {
        return Acc::No;
    }
    *lay = Layout::new();
    lay.counts = [qd, an, ns, ar];
    // question
    let mut off = 12usize;
    lay.sect_start[0] = off;
    let qn = match name_end_x(p, off, true, chars) {
        None => return Acc::No,
        Some(e) => e,
    };
    if qn + 4 > n {
        return Acc::No;
    }
    if rd16(p, qn + 2) != 1 {
        return Acc::No; // class IN only
    }
    lay.recs[0] = Rec {
        start: off,
        name_end: qn,
        rtype: rd16(p, qn),
        rdlen: 0,
        next: qn + 4,
        section: 0,
    };
    lay.nrec = 1;
    off = qn + 4;
    let mut sect = 1usize;
    while sect < 4 {
        let cnt = lay.counts[sect];
        lay.sect_start[sect] = off;
        let mut i = 0;
        while i < cnt {
            if lay.nrec >= MAX_RR {
                return Acc::TooBig;
            }
            let ne = match name_end_x(p, off, true, chars) {
                None => return Acc::No,
                Some(e) => e,
            };
            if ne + 10 > n {
                return Acc::No;
            }
            let rtype = rd16(p, ne);
            let rdlen = rd16(p, ne + 8) as usize;
            let rd = ne + 10;
            if rd + rdlen > n {
                return Acc::No;
            }
            let next = rd + rdlen;
            let ok = match rtype {
                T_OPT => {
                    if sect != 3 || ne - off != 1 || lay.opt.is_some() {
                        false
                    } else {
                        // options must tile the data exactly
                        let mut o = rd;
                        let mut good = true;
                        let mut too_big = false;
                        while o < next {
                            if o + 4 > next {
                                good = false;
                                break;
                            }
                            let ol = rd16(p, o + 2) as usize;
                            if o + 4 + ol > next {
                                good = false;
                                break;
                            }
                            if lay.nopts >= MAX_OPTS {
                                too_big = true;
                                break;
                            }
                            lay.opts[lay.nopts] = (o, o + 4 + ol);
                            lay.nopts += 1;
                            o += 4 + ol;
                        }
                        if too_big {
                            return Acc::TooBig;
                        }
                        lay.opt = Some(lay.nrec);
                        lay.edns_start = rd;
                        lay.edns_end = next;
                        good
                    }
                }
                T_NS | T_CNAME | T_PTR => rdlen > 0 && name_end_x(p, rd, true, chars) == Some(next),
                T_MX => rdlen > 2 && name_end_x(p, rd + 2, true, chars) == Some(next),
                T_SOA => {
                    rdlen > 21
                        && match name_end_x(p, rd, true, chars) {
                            None => false,
                            Some(e1) => match name_end_x(p, e1, true, chars) {
                                None => false,
                                Some(e2) => e2 + 20 == next,
                            },
                        }
                }
                T_DNAME => rdlen > 0 && name_end(p, rd, false) == Some(next),
                T_A => rdlen == 4,
                T_AAAA => rdlen == 16,
                _ => true,
            };
            if !ok {
                return Acc::No;
            }
            lay.recs[lay.nrec] = Rec {
                start: off,
                name_end: ne,
                rtype,
                rdlen,
                next,
                section: sect as u8,
            };
            lay.nrec += 1;
            off = next;
            i += 1;
        }
        sect += 1;
    }
    if off != n {
        return Acc::No;
    }
    Acc::Yes
}

/// Does any name the library understands contain a compression pointer?
pub fn has_pointer(p: &[u8], lay: &Layout) -> bool {
    let mut i = 0;
    while i < lay.nrec {
        let r = &lay.recs[i];
        if name_has_ptr(p, r.start) {
            return true;
        }
        let rd = r.name_end + 10;
        if r.section != 0 {
            match r.rtype {
                T_NS | T_CNAME | T_PTR => {
                    if name_has_ptr(p, rd) {
                        return true;
                    }
                }
                T_MX => {
                    if name_has_ptr(p, rd + 2) {
                        return true;
                    }
                }
                T_SOA => {
                    if name_has_ptr(p, rd) {
                        return true;
                    }
                    let e1 = skip_written_name(p, rd);
                    if name_has_ptr(p, e1) {
                        return true;
                    }
                }
                _ => {}
            }
        }
        i += 1;
    }
    false
}

/// Is there a pointer in the name as written at `off` (valid name assumed)?
pub fn name_has_ptr(p: &[u8], off: usize) -> bool {
    let mut cur = off;
    let mut g = 0;
    while g < 130 {
        g += 1;
        let b = p[cur];
        if b >= 0xc0 {
            return true;
        }
        if b == 0 {
            return false;
        }
        cur += b as usize + 1;
    }
    false
}

/// End of a name as written (valid name assumed).
pub fn skip_written_name(p: &[u8], off: usize) -> usize {
    let mut cur = off;
    let mut g = 0;
    while g < 130 {
        g += 1;
        let b = p[cur];
        if b >= 0xc0 {
            return cur + 2;
        }
        if b == 0 {
            return cur + 1;
        }
        cur += b as usize + 1;
    }
    cur
}

/// A cursor over the expanded form of a (valid) name.
#[derive(Clone, Copy)]
pub struct NameCur<'a> {
    p: &'a [u8],
    cur: usize,
    /// bytes left in the current label (0 = at a length byte)
    left: usize,
    done: bool,
    fuel: usize,
}

impl<'a> NameCur<'a> {
    pub fn new(p: &'a [u8], off: usize) -> Self {
        NameCur {
            p,
            cur: off,
            left: 0,
            done: false,
            fuel: 600,
        }
    }
    /// Next byte of the expanded wire form (length bytes and label bytes,
    /// ending with the 0 root label); None afterwards.
    pub fn next(&mut self) -> Option<(u8, bool)> {
        if self.done {
            return None;
        }
        if self.left > 0 {
            let b = self.p[self.cur];
            self.cur += 1;
            self.left -= 1;
            return Some((b, false));
        }
        loop {
            if self.fuel == 0 {
                self.done = true;
                return None;
            }
            self.fuel -= 1;
            let b = self.p[self.cur];
            if b >= 0xc0 {
                self.cur = (((b & 0x3f) as usize) << 8) | (self.p[self.cur + 1] as usize);
                continue;
            }
            self.cur += 1;
            if b == 0 {
                self.done = true;
            } else {
                self.left = b as usize;
            }
            return Some((b, true));
        }
    }
}

#[inline]
pub fn lower(c: u8) -> u8 {
    if c >= b'A' && c <= b'Z' {
        c + 32
    } else {
        c
    }
}

/// Are the expanded names at (p1,o1) and (p2,o2) equal? `ci`: label bytes are
/// compared ASCII case-insensitively.
pub fn names_eq(p1: &[u8], o1: usize, p2: &[u8], o2: usize, ci: bool) -> bool {
    let mut a = NameCur::new(p1, o1);
    let mut b = NameCur::new(p2, o2);
    let mut g = 0;
    let mut same = true;
    while g < 260 {
        g += 1;
        match (a.next(), b.next()) {
            (None, None) => return same,
            (Some((x, xl)), Some((y, yl))) => {
                if xl != yl {
                    return false;
                }
                if xl {
                    if x != y {
                        return false;
                    }
                } else if ci {
                    same &= lower(x) == lower(y);
                } else {
                    same &= x == y;
                }
            }
            _ => return false,
        }
    }
    false
}

/// Expanded wire form of the name at `off` into `out`; returns its length.
pub fn name_wire(p: &[u8], off: usize, out: &mut [u8; 256]) -> usize {
    let mut c = NameCur::new(p, off);
    let mut n = 0;
    while n < 256 {
        match c.next() {
            None => break,
            Some((b, _)) => {
                out[n] = b;
                n += 1;
            }
        }
    }
    n
}

/// Length of the expanded wire form.
pub fn name_wire_len(p: &[u8], off: usize) -> usize {
    let mut c = NameCur::new(p, off);
    let mut n = 0;
    while n < 300 {
        match c.next() {
            None => break,
            Some(_) => n += 1,
        }
    }
    n
}

/// Does the expanded name at (p,off) equal the pointer-free wire name `w`?
pub fn name_is(p: &[u8], off: usize, w: &[u8], ci: bool) -> bool {
    names_eq(p, off, w, 0, ci)
}

/// Compares record `r1` of packet `p1` with record `r2` of `p2` as decoded
/// RFC 1035 records: owner, type, class, TTL and data, names expanded.
/// `ci`: names compared case-insensitively.
pub fn rec_eq(p1: &[u8], r1: &Rec, p2: &[u8], r2: &Rec, ci: bool) -> bool {
    if !names_eq(p1, r1.start, p2, r2.start, ci) {
        return false;
    }
    rec_eq_rest(p1, r1, p2, r2, ci)
}

/// Everything of a record but its owner name.
pub fn rec_eq_rest(p1: &[u8], r1: &Rec, p2: &[u8], r2: &Rec, ci: bool) -> bool {
    if r1.section != r2.section {
        return false;
    }
    if r1.section == 0 {
        // question: type and class as found in the bytes
        return rd16(p1, r1.name_end) == rd16(p2, r2.name_end) && rd16(p1, r1.name_end + 2) == rd16(p2, r2.name_end + 2);
    }
    if r1.rtype != r2.rtype {
        return false;
    }
    // class, ttl
    if rd16(p1, r1.name_end + 2) != rd16(p2, r2.name_end + 2)
        || rd32(p1, r1.name_end + 4) != rd32(p2, r2.name_end + 4)
    {
        return false;
    }
    let d1 = r1.name_end + 10;
    let d2 = r2.name_end + 10;
    match r1.rtype {
        T_NS | T_CNAME | T_PTR => names_eq(p1, d1, p2, d2, ci),
        T_MX => rd16(p1, d1) == rd16(p2, d2) && names_eq(p1, d1 + 2, p2, d2 + 2, ci),
        T_SOA => {
            if !names_eq(p1, d1, p2, d2, ci) {
                return false;
            }
            let e1 = skip_written_name(p1, d1);
            let e2 = skip_written_name(p2, d2);
            if !names_eq(p1, e1, p2, e2, ci) {
                return false;
            }
            let f1 = skip_written_name(p1, e1);
            let f2 = skip_written_name(p2, e2);
            bytes_eq(p1, f1, p2, f2, 20)
        }
        _ => r1.rdlen == r2.rdlen && bytes_eq(p1, d1, p2, d2, r1.rdlen),
    }
}

pub fn bytes_eq(p1: &[u8], o1: usize, p2: &[u8], o2: usize, n: usize) -> bool {
    if o1 + n > p1.len() || o2 + n > p2.len() {
        return false;
    }
    let mut i = 0;
    let mut same = true;
    while i < n {
        same &= p1[o1 + i] == p2[o2 + i];
        i += 1;
    }
    same
}

/// Same decoded message: header (id, flags, counts) and every record.
pub fn msg_eq(p1: &[u8], l1: &Layout, p2: &[u8], l2: &Layout, ci: bool) -> bool {
    if !bytes_eq(p1, 0, p2, 0, 12) {
        return false;
    }
    if l1.nrec != l2.nrec {
        return false;
    }
    let mut i = 0;
    while i < l1.nrec {
        if !rec_eq(p1, &l1.recs[i], p2, &l2.recs[i], ci) {
            return false;
        }
        i += 1;
    }
    true
}

/// Lowercase dotted text form of the expanded name at `off` ('.' inside a
/// label written as \046). Returns the length written into `out`.
pub fn name_text(p: &[u8], off: usize, out: &mut [u8; 300], lowercase: bool) -> usize {
    let mut c = NameCur::new(p, off);
    let mut n = 0;
    let mut first = true;
    let mut g = 0;
    while g < 300 {
        g += 1;
        match c.next() {
            None => break,
            Some((b, true)) => {
                if b == 0 {
                    break;
                }
                if !first {
                    out[n] = b'.';
                    n += 1;
                }
                first = false;
            }
            Some((b, false)) => {
                if b == b'.' {
                    out[n] = b'\\';
                    out[n + 1] = b'0';
                    out[n + 2] = b'4';
                    out[n + 3] = b'6';
                    n += 4;
                } else {
                    out[n] = if lowercase { lower(b) } else { b };
                    n += 1;
                }
            }
        }
    }
    n
}

/// Is `w[..]` (from offset 0) a well-formed pointer-free wire name that ends
/// exactly at w.len()? (labels <= 63, total <= 255)
pub fn is_plain_name(w: &[u8]) -> bool {
    if w.is_empty() || w.len() > MAX_NAME {
        return false;
    }
    let mut cur = 0;
    let mut g = 0;
    while g < 130 {
        g += 1;
        if cur >= w.len() {
            return false;
        }
        let b = w[cur] as usize;
        if b > MAX_LABEL {
            return false;
        }
        if b == 0 {
            return cur + 1 == w.len();
        }
        cur += b + 1;
    }
    false
}

/// Where the records `recs` of packet `p` land once every name the library
/// understands is expanded (decompression): fills `out`, returns the total
/// length of the expanded packet.
pub fn expanded_layout(p: &[u8], recs: &[Rec], out: &mut [Rec; MAX_RR]) -> usize {
    let mut cur = 12;
    let mut i = 0;
    while i < recs.len() && i < MAX_RR {
        let r = &recs[i];
        let ne = cur + name_wire_len(p, r.start);
        if r.section == 0 {
            out[i] = Rec { start: cur, name_end: ne, rtype: r.rtype, rdlen: 0, next: ne + 4, section: 0 };
            cur = ne + 4;
        } else {
            let rd = r.name_end + 10;
            let rdlen = match r.rtype {
                T_NS | T_CNAME | T_PTR => name_wire_len(p, rd),
                T_MX => 2 + name_wire_len(p, rd + 2),
                T_SOA => {
                    let e1 = skip_written_name(p, rd);
                    name_wire_len(p, rd) + name_wire_len(p, e1) + 20
                }
                _ => r.rdlen,
            };
            out[i] = Rec { start: cur, name_end: ne, rtype: r.rtype, rdlen, next: ne + 10 + rdlen, section: r.section };
            cur = ne + 10 + rdlen;
        }
        i += 1;
    }
    cur
}

/// Does any name the library understands, in the records `recs` of `p`,
/// contain a compression pointer?
pub fn recs_have_pointer(p: &[u8], recs: &[Rec]) -> bool {
    let mut i = 0;
    while i < recs.len() {
        let r = &recs[i];
        if name_has_ptr(p, r.start) {
            return true;
        }
        let rd = r.name_end + 10;
        if r.section != 0 {
            match r.rtype {
                T_NS | T_CNAME | T_PTR => {
                    if name_has_ptr(p, rd) {
                        return true;
                    }
                }
                T_MX => {
                    if name_has_ptr(p, rd + 2) {
                        return true;
                    }
                }
                T_SOA => {
                    if name_has_ptr(p, rd) {
                        return true;
                    }
                    let e1 = skip_written_name(p, rd);
                    if name_has_ptr(p, e1) {
                        return true;
                    }
                }
                _ => {}
            }
        }
        i += 1;
    }
    false
}

#[derive(Clone, Copy, Debug, PartialEq, Eq)]
pub enum Renamed {
    Unchanged,
    To(usize),
    TooLong,
}

/// C07: the expected effect of a rename on one expanded pointer-free name
/// `n` (wire form): if `n` equals `source` (or, with `suffix`, ends with it on
/// a label boundary), compared case-insensitively, that part is replaced by
/// `target`; the result is written to `out`.
pub fn rename_expected(n: &[u8], target: &[u8], source: &[u8], suffix: bool, out: &mut [u8; 256]) -> Renamed {
    let nl = n.len();
    let sl = source.len();
    if nl < sl || (!suffix && nl != sl) {
        return Renamed::Unchanged;
    }
    let off = nl - sl;
    // off must be a label boundary of n
    let mut cur = 0;
    let mut g = 0;
    let mut boundary = false;
    while g < 130 && cur < nl {
        g += 1;
        if cur == off {
            boundary = true;
            break;
        }
        if n[cur] == 0 {
            break;
        }
        cur += n[cur] as usize + 1;
    }
    if !boundary {
        return Renamed::Unchanged;
    }
    // compare n[off..] with source: same label lengths, label bytes up to case
    let mut i = 0;
    let mut left = 0usize;
    while i < sl {
        let a = n[off + i];
        let b = source[i];
        if left == 0 {
            if a != b {
                return Renamed::Unchanged;
            }
            left = a as usize;
        } else {
            if lower(a) != lower(b) {
                return Renamed::Unchanged;
            }
            left -= 1;
        }
        i += 1;
    }
    if off + target.len() > MAX_NAME {
        return Renamed::TooLong;
    }
    let mut k = 0;
    while k < off {
        out[k] = n[k];
        k += 1;
    }
    let mut j = 0;
    while j < target.len() {
        out[off + j] = target[j];
        j += 1;
    }
    Renamed::To(off + target.len())
}

/// C14: are the labels of the pointer-free wire name `w` exactly the
/// dot-separated labels of `text` (a trailing dot closes the name; without it
/// the labels of the wire name `zone` follow, or the root when no zone)?
pub fn text_labels_match(text: &[u8], zone: Option<&[u8]>, w: &[u8]) -> bool {
    let tl = text.len();
    let mut wi = 0usize; // cursor in w
    let mut ti = 0usize; // cursor in text
    let absolute = tl > 0 && text[tl - 1] == b'.';
    let body = if absolute { tl - 1 } else { tl };
    // labels of the text
    let mut g = 0;
    while ti < body && g < 300 {
        g += 1;
        // label = text[ti..e] up to the next dot
        let mut e = ti;
        while e < body && text[e] != b'.' {
            e += 1;
        }
        let l = e - ti;
        if l == 0 {
            return false; // empty label cannot be represented
        }
        if wi >= w.len() || w[wi] as usize != l || wi + 1 + l > w.len() {
            return false;
        }
        let mut k = 0;
        let mut same = true;
        while k < l {
            same &= w[wi + 1 + k] == text[ti + k];
            k += 1;
        }
        if !same {
            return false;
        }
        wi += 1 + l;
        ti = e + 1;
    }
    // tail: root, or the zone
    if absolute || body == 0 {
        return wi + 1 == w.len() && w[wi] == 0;
    }
    match zone {
        None => wi + 1 == w.len() && w[wi] == 0,
        Some(z) => {
            if w.len() != wi + z.len() {
                return false;
            }
            let mut k = 0;
            let mut same = true;
            while k < z.len() {
                same &= w[wi + k] == z[k];
                k += 1;
            }
            same
        }
    }
}

/// letters, digits, hyphen, underscore
#[inline]
pub fn is_ldhu(c: u8) -> bool {
    (c >= b'a' && c <= b'z') || (c >= b'A' && c <= b'Z') || (c >= b'0' && c <= b'9') || c == b'-' || c == b'_'
}

/// C14 acceptance clause: 1 = must be accepted (LDH_ labels of at most 62
/// bytes, no empty label, wire length at most 253 including the zone);
/// 2 = must be rejected (an empty interior label, a label over 63, a wire
/// length over 255); 0 = the property leaves it open.
pub fn text_class(text: &[u8], zone_len: usize) -> u8 {
    let tl = text.len();
    if tl == 0 {
        return 0;
    }
    if tl == 1 && text[0] == b'.' {
        return 0;
    }
    let absolute = text[tl - 1] == b'.';
    let body = if absolute { tl - 1 } else { tl };
    let mut all_ldhu = true;
    let mut empty_label = false;
    let mut max_label = 0usize;
    let mut cur = 0usize;
    let mut wire = 0usize;
    let mut i = 0;
    while i < body {
        if text[i] == b'.' {
            if cur == 0 {
                empty_label = true;
            }
            wire += 1 + cur;
            cur = 0;
        } else {
            all_ldhu &= is_ldhu(text[i]);
            cur += 1;
            if cur > max_label {
                max_label = cur;
            }
        }
        i += 1;
    }
    if cur == 0 {
        empty_label = true; // "a.." or a leading dot
    }
    wire += 1 + cur;
    wire += if absolute || zone_len == 0 { 1 } else { zone_len };
    if empty_label || max_label > MAX_LABEL || wire > MAX_NAME {
        return 2;
    }
    if all_ldhu && max_label <= 62 && wire <= 253 {
        return 1;
    }
    0
}
