//! C07 — renaming rewrites exactly the matching names and nothing else.
use crate::skel::*;
use crate::spec;
use crate::src::*;
use crate::util::*;
use dnssector::*;

pub trait RnCase {
    type K: Skel;
    const SOURCE: &'static [u8];
    const TARGET: &'static [u8];
    const SUFFIX: bool;
}

/// the name at (p, off) after the rename, compared with the name at (out, ooff)
/// `any_too_long` is set when the rename of this name must fail
fn name_ok(p: &[u8], off: usize, out: &[u8], ooff: usize, target: &[u8], source: &[u8], suffix: bool) -> bool {
    let mut w = [0u8; 256];
    let wl = spec::name_wire(p, off, &mut w);
    let mut e = [0u8; 256];
    match spec::rename_expected(&w[..wl], target, source, suffix, &mut e) {
        spec::Renamed::Unchanged => spec::names_eq(p, off, out, ooff, true),
        spec::Renamed::To(l) => spec::name_is(out, ooff, &e[..l], true),
        spec::Renamed::TooLong => false,
    }
}

fn name_too_long(p: &[u8], off: usize, target: &[u8], source: &[u8], suffix: bool) -> bool {
    let mut w = [0u8; 256];
    let wl = spec::name_wire(p, off, &mut w);
    let mut e = [0u8; 256];
    spec::rename_expected(&w[..wl], target, source, suffix, &mut e) == spec::Renamed::TooLong
}

/// does any name of the packet overflow under this rename?
fn any_too_long(p: &[u8], lay: &spec::Layout, target: &[u8], source: &[u8], suffix: bool) -> bool {
    let mut i = 0;
    let mut r = false;
    while i < lay.nrec {
        let rec = &lay.recs[i];
        if rec.rtype != spec::T_OPT || rec.section == 0 {
            r |= name_too_long(p, rec.start, target, source, suffix);
        }
        if rec.section != 0 {
            let rd = rec.name_end + 10;
            match rec.rtype {
                spec::T_NS | spec::T_CNAME | spec::T_PTR => r |= name_too_long(p, rd, target, source, suffix),
                spec::T_MX => r |= name_too_long(p, rd + 2, target, source, suffix),
                spec::T_SOA => {
                    r |= name_too_long(p, rd, target, source, suffix);
                    r |= name_too_long(p, spec::skip_written_name(p, rd), target, source, suffix);
                }
                _ => {}
            }
        }
        i += 1;
    }
    r
}

fn check_renamed(p: &[u8], lay: &spec::Layout, out: &[u8], target: &[u8], source: &[u8], suffix: bool) -> Verdict {
    let mut olay = spec::Layout::new();
    if spec::accepts(out, &mut olay) != spec::Acc::Yes {
        vassert!(false, "rename: the output is well-formed under the policy");
        return Ok(());
    }
    vassert!(spec::bytes_eq(p, 0, out, 0, 12), "rename: identical header and counts");
    vassert!(olay.nrec == lay.nrec, "rename: same number of records");
    let mut i = 0;
    while i < lay.nrec && i < olay.nrec {
        let a = &lay.recs[i];
        let b = &olay.recs[i];
        vassert!(a.section == b.section && a.rtype == b.rtype, "rename: record order, sections and types unchanged");
        if a.rtype == spec::T_OPT && a.section != 0 {
            vassert!(a.rdlen == b.rdlen && spec::bytes_eq(p, a.start, out, b.start, a.next - a.start), "rename: the OPT record is unchanged");
            i += 1;
            continue;
        }
        vassert!(name_ok(p, a.start, out, b.start, target, source, suffix), "rename: owner/question name is the expected name");
        if a.section == 0 {
            vassert!(spec::bytes_eq(p, a.name_end, out, b.name_end, 4), "rename: question type and class unchanged");
            i += 1;
            continue;
        }
        vassert!(spec::bytes_eq(p, a.name_end, out, b.name_end, 8), "rename: type, class and TTL unchanged");
        let da = a.name_end + 10;
        let db = b.name_end + 10;
        match a.rtype {
            spec::T_NS | spec::T_CNAME | spec::T_PTR => {
                vassert!(name_ok(p, da, out, db, target, source, suffix), "rename: name inside NS/CNAME/PTR data is the expected name");
            }
            spec::T_MX => {
                vassert!(spec::bytes_eq(p, da, out, db, 2), "rename: MX preference unchanged");
                vassert!(name_ok(p, da + 2, out, db + 2, target, source, suffix), "rename: name inside MX data is the expected name");
            }
            spec::T_SOA => {
                vassert!(name_ok(p, da, out, db, target, source, suffix), "rename: first name inside SOA data is the expected name");
                let ea = spec::skip_written_name(p, da);
                let eb = spec::skip_written_name(out, db);
                vassert!(name_ok(p, ea, out, eb, target, source, suffix), "rename: second name inside SOA data is the expected name");
                let fa = spec::skip_written_name(p, ea);
                let fb = spec::skip_written_name(out, eb);
                vassert!(spec::bytes_eq(p, fa, out, fb, 20), "rename: SOA counters unchanged");
            }
            _ => {
                vassert!(a.rdlen == b.rdlen && spec::bytes_eq(p, da, out, db, a.rdlen), "rename: opaque data unchanged");
            }
        }
        i += 1;
    }
    Ok(())
}

/// MODE 0: Renamer::rename_with_raw_names (returns the bytes);
/// MODE 1: ParsedPacket::rename_with_raw_names (object updated in place)
pub fn rename<S: Src, C: RnCase, const MODE: usize>(s: &mut S) -> Verdict {
    let p = <C::K as Skel>::build_cl(s);
    let mut lay = spec::Layout::new();
    if spec::accepts(&p, &mut lay) != spec::Acc::Yes {
        vassert!(false, "ORACLE: spec::accepts rejects a skeleton that is well-formed by construction");
        return Ok(());
    }
    vassert!(spec::is_plain_name(C::SOURCE) && spec::is_plain_name(C::TARGET) && C::SOURCE.len() > 1 && C::TARGET.len() > 1, "ORACLE: source and target are well-formed non-root names");
    let must_fail = any_too_long(&p, &lay, C::TARGET, C::SOURCE, C::SUFFIX);
    cut_errors(2);
    let pr = real_parse(&p);
    vassert!(pr.is_ok(), "accepted: the skeleton is well-formed");
    let mut pp = match pr {
        Ok(pp) => pp,
        Err(_) => return Ok(()),
    };
    cut_errors(if must_fail { 0 } else { 2 });
    if MODE == 0 {
        let r = Renamer::rename_with_raw_names(&mut pp, C::TARGET, C::SOURCE, C::SUFFIX);
        match r {
            Ok(out) => {
                vassert!(!must_fail, "rename: a name that would exceed 255 bytes makes the call fail");
                let rp = real_parse(&out);
                vassert!(rp.is_ok(), "rename: the output is accepted by the parser");
                cut_errors(0);
                check_renamed(&p, &lay, &out, C::TARGET, C::SOURCE, C::SUFFIX)?;
                vcover!(s, !slices_eq(&out, &p), "the rename changed the packet");
            }
            Err(_) => {
                vassert!(must_fail, "rename succeeds when no name overflows");
            }
        }
    } else {
        let r = pp.rename_with_raw_names(C::TARGET, C::SOURCE, C::SUFFIX);
        match r {
            Ok(()) => {
                vassert!(!must_fail, "rename: a name that would exceed 255 bytes makes the call fail");
                vassert!(pp.packet.is_some(), "ParsedPacket::rename_with_raw_names: the object still holds a packet");
                let out = pp.packet().to_vec();
                let fresh = real_parse(&out);
                cut_errors(0);
                match fresh {
                    Ok(f) => {
                        vassert!(crate::p_view::same_view(&mut pp, f), "ParsedPacket::rename_with_raw_names: the object's view equals a fresh parse of its bytes");
                    }
                    Err(_) => vassert!(false, "ParsedPacket::rename_with_raw_names: the bytes are accepted by the parser"),
                }
                check_renamed(&p, &lay, &out, C::TARGET, C::SOURCE, C::SUFFIX)?;
            }
            Err(_) => {
                vassert!(must_fail, "rename succeeds when no name overflows");
            }
        }
    }
    vcover!(s, true, "end");
    Ok(())
}
