//! C14 — host names convert between text and wire form without loss.
use crate::skel::*;
use crate::spec;
use crate::src::*;
use crate::util::*;
use dnssector::*;

const ZONE: &[u8] = &[2, b'z', b'n', 0];

/// `raw_name_from_str` on every text of up to N bytes (all bytes and the
/// length symbolic), with no zone (ZONED = false) or a fixed 4-byte zone.
pub fn from_str<S: Src, const N: usize, const ZONED: bool>(s: &mut S) -> Verdict {
    let buf: [u8; N] = sym_bytes::<S, N>(s);
    let len = s.usize();
    vassume!(len <= N);
    let text = &buf[..len];
    let zone = if ZONED { Some(ZONE) } else { None };
    let r = r#gen::raw_name_from_str(text, zone);
    let class = spec::text_class(text, if ZONED { ZONE.len() } else { 0 });
    match r {
        Ok(w) => {
            vassert!(class != 2, "raw_name_from_str rejects an empty interior label, an over-long label or total");
            vassert!(spec::is_plain_name(&w), "raw_name_from_str: the result is a well-formed pointer-free wire name (labels <= 63, total <= 255)");
            vassert!(spec::text_labels_match(text, zone, &w), "raw_name_from_str: the labels are exactly the dot-separated labels of the text (+ zone unless it ends in a dot)");
            vcover!(s, len == N && w.len() > N, "a full-length text accepted");
        }
        Err(_) => {
            vassert!(class != 1, "raw_name_from_str accepts every letter-digit-hyphen-underscore name within the limits");
            vcover!(s, true, "rejected");
        }
    }
    Ok(())
}

/// `raw_name_from_str` on every text of exactly L bytes (all bytes symbolic;
/// the length is concrete: a symbolic length makes the converter's
/// `Vec::with_capacity(len)` a symbolic-size allocation).
pub fn from_str_len<S: Src, const L: usize, const ZONED: bool>(s: &mut S) -> Verdict {
    let buf: [u8; L] = sym_bytes::<S, L>(s);
    let text = &buf[..];
    let zone = if ZONED { Some(ZONE) } else { None };
    let r = r#gen::raw_name_from_str(text, zone);
    let class = spec::text_class(text, if ZONED { ZONE.len() } else { 0 });
    match r {
        Ok(w) => {
            vassert!(class != 2, "raw_name_from_str rejects an empty interior label, an over-long label or total");
            vassert!(spec::is_plain_name(&w), "raw_name_from_str: the result is a well-formed pointer-free wire name (labels <= 63, total <= 255)");
            vassert!(spec::text_labels_match(text, zone, &w), "raw_name_from_str: the labels are exactly the dot-separated labels of the text (+ zone unless it ends in a dot)");
            vcover!(s, true, "accepted");
        }
        Err(_) => {
            vassert!(class != 1, "raw_name_from_str accepts every letter-digit-hyphen-underscore name within the limits");
            vcover!(s, true, "rejected");
        }
    }
    Ok(())
}

pub const PREFIXES: &[&[u8]] = &[b"", b"a", b"a.", b"a.b", b".", b"ab", b"a.b.", b"a-", b"_x.y", b"1.2"];

/// `raw_name_from_str` on a concrete prefix followed by one symbolic byte
/// (all 256 values). Only the last byte is symbolic: a symbolic byte earlier
/// in the text makes the converter's slice copies symbolic-sized, which the
/// solver cannot handle (measured: 2 symbolic bytes -> 32 M variables).
pub fn from_str_lastsym<S: Src, const P: usize, const ZONED: bool>(s: &mut S) -> Verdict {
    let pre = PREFIXES[P];
    let mut buf = [0u8; 8];
    let mut i = 0;
    while i < pre.len() {
        buf[i] = pre[i];
        i += 1;
    }
    buf[pre.len()] = s.u8();
    let text = &buf[..pre.len() + 1];
    let zone = if ZONED { Some(ZONE) } else { None };
    let r = r#gen::raw_name_from_str(text, zone);
    let class = spec::text_class(text, if ZONED { ZONE.len() } else { 0 });
    match r {
        Ok(w) => {
            vassert!(class != 2, "raw_name_from_str rejects an empty interior label, an over-long label or total");
            vassert!(spec::is_plain_name(&w), "raw_name_from_str: the result is a well-formed pointer-free wire name (labels <= 63, total <= 255)");
            vassert!(spec::text_labels_match(text, zone, &w), "raw_name_from_str: the labels are exactly the dot-separated labels of the text (+ zone unless it ends in a dot)");
            vcover!(s, true, "accepted");
        }
        Err(_) => {
            vassert!(class != 1, "raw_name_from_str accepts every letter-digit-hyphen-underscore name within the limits");
            vcover!(s, true, "rejected");
        }
    }
    Ok(())
}

pub const DOT_TEXTS: &[&[u8]] = &[b"a..", b"..", b".a", b"a..b", b"a.b..", b".", b"a.", b"", b"a.b.", b"...", b"a.b", b"ab.."];

/// `raw_name_from_str` on concrete texts that exercise the dot handling
/// (empty labels in every position), with and without a zone. Concrete:
/// the solver executes the real converter; the oracle is evaluated alongside.
pub fn from_str_dots<S: Src, const T: usize, const ZONED: bool>(s: &mut S) -> Verdict {
    let text = DOT_TEXTS[T];
    let zone = if ZONED { Some(ZONE) } else { None };
    let r = r#gen::raw_name_from_str(text, zone);
    let class = spec::text_class(text, if ZONED { ZONE.len() } else { 0 });
    match r {
        Ok(w) => {
            vassert!(class != 2, "raw_name_from_str rejects an empty interior label, an over-long label or total");
            vassert!(spec::is_plain_name(&w), "raw_name_from_str: the result is a well-formed pointer-free wire name (labels <= 63, total <= 255)");
            vassert!(spec::text_labels_match(text, zone, &w), "raw_name_from_str: the labels are exactly the dot-separated labels of the text (+ zone unless it ends in a dot)");
        }
        Err(_) => {
            vassert!(class != 1, "raw_name_from_str accepts every letter-digit-hyphen-underscore name within the limits");
        }
    }
    vcover!(s, true, "end");
    Ok(())
}

/// Boundary lengths: one label of L bytes (L = 61..64) followed by PAD
/// labels so that the total wire length is TOTAL; one symbolic byte in the
/// first label.
pub fn from_str_boundary<S: Src, const L: usize, const TOTAL: usize>(s: &mut S) -> Verdict {
    // text: label of L bytes, then labels of up to 50 bytes until the wire length (with root) is TOTAL
    // no reallocation while the text is built (each realloc adds a candidate object to every
    // later dereference)
    let mut text: Vec<u8> = Vec::with_capacity(300);
    // names that must be accepted: the first character is symbolic (any LDH_ character) and a
    // library error is a failed check; for the other lengths everything is concrete and error
    // paths are explored (a symbolic character would make the '.'-branch of the converter merge
    // into every later step)
    // (measured: with a symbolic first character the must-accept cases do not finish in
    // 15 min; the boundary companions are therefore fully concrete: SYM is false)
    const SYM: bool = false;
    let must_accept = SYM && L <= 62 && TOTAL <= 253;
    let c = if must_accept { s.u8() } else { b'a' };
    vassume!(spec::is_ldhu(c));
    if must_accept {
        cut_errors(2);
    }
    text.push(c);
    let mut i = 1;
    while i < L {
        text.push(b'a');
        i += 1;
    }
    let mut wire = 1 + L + 1; // label + root
    while wire < TOTAL {
        let room = TOTAL - wire; // bytes to add: 1 (length) + l
        let l = if room > 51 { 50 } else { room - 1 };
        if l == 0 {
            break;
        }
        text.push(b'.');
        let mut k = 0;
        while k < l {
            text.push(b'b');
            k += 1;
        }
        wire += 1 + l;
    }
    let r = r#gen::raw_name_from_str(&text, None);
    cut_errors(0);
    let class = spec::text_class(&text, 0);
    match r {
        Ok(w) => {
            vassert!(class != 2, "raw_name_from_str rejects an over-long label or total");
            vassert!(spec::is_plain_name(&w) && w.len() == wire, "raw_name_from_str: well-formed result of the expected length");
            vassert!(spec::text_labels_match(&text, None, &w), "raw_name_from_str: labels are the labels of the text");
            vcover!(s, true, "accepted");
        }
        Err(_) => {
            vassert!(class != 1, "raw_name_from_str accepts every LDH name with labels <= 62 and wire length <= 253");
            vcover!(s, true, "rejected");
        }
    }
    vcover!(s, true, "end");
    Ok(())
}

/// read-back: set_raw_name(raw_name_from_str("Ab.cD" [+ zone])) on answer 0
/// of a skeleton, then name() is the lowercased text (+ zone).
pub fn readback<S: Src, K: Skel, const ZONED: bool>(s: &mut S) -> Verdict {
    let p = K::build_cl(s);
    cut_errors(2);
    let r = real_parse(&p);
    vassert!(r.is_ok(), "accepted: the skeleton is well-formed");
    let mut pp = match r {
        Ok(pp) => pp,
        Err(_) => return Ok(()),
    };
    let text: &[u8] = if ZONED { b"Ab.cD" } else { b"Ab.cD." };
    let want: &[u8] = if ZONED { b"ab.cd.zn" } else { b"ab.cd" };
    let w = match r#gen::raw_name_from_str(text, if ZONED { Some(ZONE) } else { None }) {
        Ok(w) => w,
        Err(_) => {
            vassert!(false, "raw_name_from_str accepts the text");
            return Ok(());
        }
    };
    let mut got: Vec<u8> = Vec::new();
    let mut ok = false;
    let mut cur = pp.into_iter_answer();
    while let Some(mut it) = cur {
        ok = it.set_raw_name(&w).is_ok();
        got = it.name();
        break;
    }
    cut_errors(0);
    vassert!(ok, "set_raw_name accepts the converted name");
    vassert!(slices_eq(&got, want), "name() reads back the lowercased text without its trailing dot (+ zone)");
    vcover!(s, true, "end");
    Ok(())
}
