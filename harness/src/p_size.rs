//! C10 — the size limit of insert_rr cannot be bypassed, whatever the size of
//! the packet it starts from (unit-level: the object is constructed directly).
use crate::src::*;
use crate::util::*;
use dnssector::*;

pub fn insert_size<S: Src, const N: usize, const SEC: u8>(s: &mut S) -> Verdict {
    let mut pp = ParsedPacket {
        packet: Some(vec![0u8; N]),
        offset_question: None,
        offset_answers: None,
        offset_nameservers: None,
        offset_additional: None,
        offset_edns: None,
        edns_count: 0,
        ext_rcode: None,
        edns_version: None,
        ext_flags: None,
        maybe_compressed: false,
        max_payload: 512,
        cached: None,
    };
    let b = s.u8();
    let ttl = s.u32();
    // 3 (name "a") + 10 + 1 = 14 bytes
    let rr = match r#gen::RR::new(r#gen::RRHeader { name: b"a".to_vec(), ttl, class: Class::IN, rr_type: Type::TXT }, &[b]) {
        Ok(rr) => rr,
        Err(_) => {
            vassert!(false, "RR::new succeeds");
            return Ok(());
        }
    };
    let rl = rr.packet.len();
    vassert!(rl == 14, "ORACLE: the record is 14 bytes long");
    let section = match SEC {
        1 => Section::Answer,
        2 => Section::NameServers,
        _ => Section::Additional,
    };
    let res = pp.insert_rr(section, rr);
    let len = pp.packet().len();
    match res {
        Ok(()) => {
            vassert!(N + rl <= 8192, "insert_rr reports 'too large' instead of exceeding 8192 bytes");
            vassert!(len == N + rl, "insert_rr: the packet grows by the record");
            vcover!(s, true, "inserted");
        }
        Err(e) => {
            vassert!(N + rl > 8192, "insert_rr accepts a record that fits within 8192 bytes");
            vassert!(err_kind(&e) == EK::PacketTooLarge, "insert_rr reports PacketTooLarge");
            vassert!(len == N, "a refused insertion leaves the packet length unchanged");
            let p = pp.packet();
            vassert!(p[4] == 0 && p[5] == 0 && p[6] == 0 && p[7] == 0 && p[8] == 0 && p[9] == 0 && p[10] == 0 && p[11] == 0, "a refused insertion leaves the counts unchanged");
            vcover!(s, true, "refused");
        }
    }
    Ok(())
}
