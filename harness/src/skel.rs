//! Skeletons: packets with concrete structure and symbolic payload.
use crate::spec;
use crate::src::*;

#[derive(Clone, Copy, Debug)]
pub struct SkRec {
    pub start: usize,
    pub name_end: usize,
    pub rtype: u16,
    pub rdlen: usize,
    pub next: usize,
    pub section: u8,
}

pub trait Skel {
    const NAME: &'static str;
    const LEN: usize;
    /// is the packet well-formed (by construction in gen/skeletons.py)?
    const ACCEPT: bool;
    /// record table by construction (question first), when ACCEPT
    const RECS: &'static [SkRec];
    /// (start, end, number of options) of the OPT data, when present
    const EDNS: Option<(usize, usize, usize)>;
    /// (start, end) of every EDNS option
    const OPTS: &'static [(usize, usize)];
    /// every non-structural byte symbolic; label characters symbolic within
    /// the alphabet the parser admits
    fn build<S: Src>(s: &mut S) -> Vec<u8>;
    /// like `build`, and the 7 non-QR bits of the first flags byte symbolic
    /// too (in `build`/`build_cl` that byte is concrete: QR as given, RD set)
    fn build_fl<S: Src>(s: &mut S) -> Vec<u8>;
    /// same with concrete label characters (for harnesses that explore error
    /// paths: a symbolic label byte makes every later offset symbolic)
    fn build_cl<S: Src>(s: &mut S) -> Vec<u8>;
}

/// a symbolic byte from the alphabet the parser admits inside labels
#[inline(always)]
pub fn lab<S: Src>(s: &mut S) -> u8 {
    s.lab()
}

/// a symbolic ASCII letter of either case
#[inline(always)]
pub fn alpha<S: Src>(s: &mut S) -> u8 {
    s.alpha()
}

/// the skeleton's record table as oracle records
pub fn recs_of<K: Skel>() -> ([spec::Rec; spec::MAX_RR], usize) {
    let mut out = [spec::NOREC; spec::MAX_RR];
    let mut i = 0;
    while i < K::RECS.len() && i < spec::MAX_RR {
        let r = &K::RECS[i];
        out[i] = spec::Rec { start: r.start, name_end: r.name_end, rtype: r.rtype, rdlen: r.rdlen, next: r.next, section: r.section };
        i += 1;
    }
    (out, i)
}
