//! C04 — header, question and EDNS summaries equal what the bytes say.
use crate::skel::*;
use crate::spec;
use crate::src::*;
use crate::util::*;
use dnssector::*;

fn opt_rec<K: Skel>() -> Option<&'static SkRec> {
    let mut i = 0;
    while i < K::RECS.len() {
        if K::RECS[i].rtype == spec::T_OPT {
            return Some(&K::RECS[i]);
        }
        i += 1;
    }
    None
}

/// header and EDNS summaries; all 15 non-QR flag bits, the id and every OPT
/// field symbolic
pub fn header_edns<S: Src, K: Skel>(s: &mut S) -> Verdict {
    let p = K::build_fl(s);
    cut_errors(2);
    let r = real_parse(&p);
    cut_errors(0);
    vassert!(r.is_ok(), "accepted: the skeleton is well-formed");
    let pp = match r {
        Ok(pp) => pp,
        Err(_) => return Ok(()),
    };
    let w = spec::rd16(&p, 2);
    vassert!(pp.tid() == spec::rd16(&p, 0), "tid()");
    vassert!(pp.opcode() == ((w >> 11) & 0x0f) as u8, "opcode()");
    vassert!(pp.rcode() == (w & 0x0f) as u8, "rcode()");
    vassert!(pp.is_response() == (w & 0x8000 != 0), "is_response()");
    let opt = opt_rec::<K>();
    let (ext_flags, ext_rcode, version, payload) = match opt {
        Some(o) => (
            spec::rd16(&p, o.name_end + 6),
            Some(p[o.name_end + 4]),
            Some(p[o.name_end + 5]),
            spec::rd16(&p, o.name_end + 2) as usize,
        ),
        None => (0, None, None, 512),
    };
    let flags = ((ext_flags as u32) << 16) | (w & 0x87f0) as u32;
    vassert!(pp.flags() == flags, "flags(): EDNS flags in the upper half, opcode and rcode masked");
    let dnssec = if w & 0x8000 == 0 { ext_flags & 0x8000 != 0 } else { w & 0x0020 != 0 };
    vassert!(pp.dnssec() == dnssec, "dnssec(): DO for queries, AD for responses");
    vassert!(pp.ext_rcode == ext_rcode, "ext_rcode");
    vassert!(pp.edns_version == version, "edns_version");
    vassert!(pp.ext_flags == opt.map(|_| ext_flags), "ext_flags");
    vassert!(pp.edns_count as usize == K::OPTS.len(), "edns_count");
    vassert!(pp.max_payload() == payload, "max_payload(): advertised size, 512 without OPT");
    vassert!(pp.offset_edns == K::EDNS.map(|e| e.0), "offset_edns");
    vcover!(s, true, "end");
    Ok(())
}

fn vec_is(v: &[u8], want: &[u8], n: usize) -> bool {
    if v.len() != n {
        return false;
    }
    let mut i = 0;
    while i < n {
        if v[i] != want[i] {
            return false;
        }
        i += 1;
    }
    true
}

/// question in raw / raw-without-root / text form with type and class.
/// ORDER 0: question() first (cache cold), then the raw forms;
/// ORDER 1: question_raw0() first (fills the cache), then question()/qtype_qclass().
pub fn question<S: Src, K: Skel, const ORDER: u8>(s: &mut S) -> Verdict {
    let p = K::build_cl(s);
    cut_errors(2);
    let r = real_parse(&p);
    cut_errors(0);
    vassert!(r.is_ok(), "accepted: the skeleton is well-formed");
    let mut pp = match r {
        Ok(pp) => pp,
        Err(_) => return Ok(()),
    };
    let q = &K::RECS[0];
    let qtype = spec::rd16(&p, q.name_end);
    let qclass = spec::rd16(&p, q.name_end + 2);
    let mut wire = [0u8; 256];
    let wn = spec::name_wire(&p, q.start, &mut wire);
    let mut text = [0u8; 300];
    let tn = spec::name_text(&p, q.start, &mut text, true);
    let mut step = 0;
    while step < 2 {
        let raw_first = (ORDER == 1) == (step == 0);
        if raw_first {
            match pp.question_raw0() {
                Some((n, t, c)) => {
                    vassert!(vec_is(n, &wire, wn), "question_raw0(): expanded raw name, case preserved");
                    vassert!(t == qtype && c == qclass, "question_raw0(): type and class");
                }
                None => vassert!(false, "question_raw0(): present"),
            }
            match pp.question_raw() {
                Some((n, t, c)) => {
                    vassert!(vec_is(n, &wire, wn - 1), "question_raw(): raw name without the root label");
                    vassert!(t == qtype && c == qclass, "question_raw(): type and class");
                }
                None => vassert!(false, "question_raw(): present"),
            }
        } else {
            match pp.question() {
                Some((n, t, c)) => {
                    vassert!(vec_is(&n, &text, tn), "question(): lowercase dotted name");
                    vassert!(t == qtype && c == qclass, "question(): type and class");
                }
                None => vassert!(false, "question(): present"),
            }
            vassert!(pp.qtype_qclass() == Some((qtype, qclass)), "qtype_qclass()");
        }
        step += 1;
    }
    vassert!(slices_eq(pp.packet(), &p), "summaries never alter the packet");
    vcover!(s, true, "end");
    Ok(())
}
