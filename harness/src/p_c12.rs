//! C12 — header setters touch only their own bits; getters return what was set.
use crate::src::*;
use crate::util::*;
use dnssector::*;

fn hdr_packet<S: Src>(s: &mut S) -> ([u8; 12], ParsedPacket) {
    let h: [u8; 12] = sym_bytes::<S, 12>(s);
    let ext = s.bool();
    let extv = s.u16();
    let pp = ParsedPacket {
        packet: Some(h.to_vec()),
        offset_question: None,
        offset_answers: None,
        offset_nameservers: None,
        offset_additional: None,
        offset_edns: None,
        edns_count: 0,
        ext_rcode: None,
        edns_version: None,
        ext_flags: if ext { Some(extv) } else { None },
        maybe_compressed: false,
        max_payload: 512,
        cached: None,
    };
    (h, pp)
}

/// bits QR|AA|TC|RD|RA|Z|AD|CD of the 16-bit flag word (RFC 1035 4.1.1, RFC 2535)
const FLAG_BITS: u16 = 0x8000 | 0x0400 | 0x0200 | 0x0100 | 0x0080 | 0x0040 | 0x0020 | 0x0010;
const OPCODE_BITS: u16 = 0x7800;
const RCODE_BITS: u16 = 0x000f;

fn word(p: &[u8]) -> u16 {
    ((p[2] as u16) << 8) | p[3] as u16
}

fn rest_same(h: &[u8; 12], p: &[u8]) -> bool {
    p.len() == 12
        && p[0] == h[0]
        && p[1] == h[1]
        && p[4] == h[4]
        && p[5] == h[5]
        && p[6] == h[6]
        && p[7] == h[7]
        && p[8] == h[8]
        && p[9] == h[9]
        && p[10] == h[10]
        && p[11] == h[11]
}

pub fn set_flags<S: Src>(s: &mut S) -> Verdict {
    let (h, mut pp) = hdr_packet(s);
    let arg = s.u32();
    let w0 = word(&h);
    pp.set_flags(arg);
    let p = pp.packet();
    let w1 = word(p);
    vassert!(rest_same(&h, p), "set_flags: id/counts untouched");
    vassert!(w1 & !FLAG_BITS == w0 & !FLAG_BITS, "set_flags: opcode/rcode bits untouched");
    vassert!(w1 & FLAG_BITS == (arg as u16) & FLAG_BITS, "set_flags: flag bits take the low half of the argument");
    // upper half ignored: same result as with the upper half cleared
    let mut pp2 = ParsedPacket { packet: Some(h.to_vec()), cached: None, ..pp_clone_meta(&pp) };
    pp2.set_flags(arg & 0xffff);
    vassert!(word(pp2.packet()) == w1, "set_flags: upper half of the argument ignored");
    // getter
    let f = pp.flags();
    vassert!(f & 0xffff == (w1 & FLAG_BITS) as u32, "flags(): low half = flag bits, opcode/rcode masked");
    vassert!((f >> 16) as u16 == pp.ext_flags.unwrap_or(0), "flags(): upper half = EDNS extended flags");
    vcover!(s, arg > 0xffff && w0 & OPCODE_BITS != 0, "upper half set and opcode non-zero");
    vcover!(s, true, "end");
    Ok(())
}

fn pp_clone_meta(pp: &ParsedPacket) -> ParsedPacket {
    ParsedPacket {
        packet: None,
        offset_question: pp.offset_question,
        offset_answers: pp.offset_answers,
        offset_nameservers: pp.offset_nameservers,
        offset_additional: pp.offset_additional,
        offset_edns: pp.offset_edns,
        edns_count: pp.edns_count,
        ext_rcode: pp.ext_rcode,
        edns_version: pp.edns_version,
        ext_flags: pp.ext_flags,
        maybe_compressed: pp.maybe_compressed,
        max_payload: pp.max_payload,
        cached: None,
    }
}

pub fn set_opcode<S: Src>(s: &mut S) -> Verdict {
    let (h, mut pp) = hdr_packet(s);
    let arg = s.u8();
    let w0 = word(&h);
    pp.set_opcode(arg);
    let w1 = word(pp.packet());
    vassert!(rest_same(&h, pp.packet()), "set_opcode: id/counts untouched");
    vassert!(w1 & !OPCODE_BITS == w0 & !OPCODE_BITS, "set_opcode: other bits untouched");
    vassert!(pp.opcode() == arg & 0x0f, "opcode(): value stored, truncated to 4 bits");
    vassert!((w1 & OPCODE_BITS) >> 11 == (arg & 0x0f) as u16, "set_opcode: field holds the argument");
    vcover!(s, true, "end");
    Ok(())
}

pub fn set_rcode<S: Src>(s: &mut S) -> Verdict {
    let (h, mut pp) = hdr_packet(s);
    let arg = s.u8();
    let w0 = word(&h);
    pp.set_rcode(arg);
    let w1 = word(pp.packet());
    vassert!(rest_same(&h, pp.packet()), "set_rcode: id/counts untouched");
    vassert!(w1 & !RCODE_BITS == w0 & !RCODE_BITS, "set_rcode: other bits untouched");
    vassert!(pp.rcode() == arg & 0x0f, "rcode(): value stored, truncated to 4 bits");
    vassert!(w1 & RCODE_BITS == (arg & 0x0f) as u16, "set_rcode: field holds the argument");
    vcover!(s, true, "end");
    Ok(())
}

pub fn set_response<S: Src>(s: &mut S) -> Verdict {
    let (h, mut pp) = hdr_packet(s);
    let arg = s.bool();
    let w0 = word(&h);
    pp.set_response(arg);
    let w1 = word(pp.packet());
    vassert!(rest_same(&h, pp.packet()), "set_response: id/counts untouched");
    vassert!(w1 & 0x7fff == w0 & 0x7fff, "set_response: other bits untouched");
    vassert!(pp.is_response() == arg, "is_response(): value stored");
    vassert!((w1 & 0x8000 != 0) == arg, "set_response: QR holds the argument");
    // the static variant on a raw buffer
    let mut raw = h;
    DNSSector::set_response(&mut raw, arg);
    vassert!(slices_eq(&raw, pp.packet()), "DNSSector::set_response agrees");
    vassert!(DNSSector::is_response(&raw) == arg, "DNSSector::is_response agrees");
    vcover!(s, true, "end");
    Ok(())
}

pub fn set_tid<S: Src>(s: &mut S) -> Verdict {
    let (h, mut pp) = hdr_packet(s);
    let arg = s.u16();
    pp.set_tid(arg);
    let p = pp.packet();
    vassert!(p.len() == 12, "set_tid: length");
    vassert!(slices_eq(&p[2..], &h[2..]), "set_tid: flags/counts untouched");
    vassert!(pp.tid() == arg, "tid(): value stored");
    vassert!(p[0] == (arg >> 8) as u8 && p[1] == arg as u8, "set_tid: big endian id");
    vcover!(s, true, "end");
    Ok(())
}

/// getters on an arbitrary header (no setter before)
pub fn getters<S: Src>(s: &mut S) -> Verdict {
    let (h, pp) = hdr_packet(s);
    let w = word(&h);
    vassert!(pp.tid() == ((h[0] as u16) << 8 | h[1] as u16), "tid()");
    vassert!(pp.opcode() == ((w >> 11) & 0xf) as u8, "opcode()");
    vassert!(pp.rcode() == (w & 0xf) as u8, "rcode()");
    vassert!(pp.is_response() == (w & 0x8000 != 0), "is_response()");
    let f = pp.flags();
    vassert!(f == ((pp.ext_flags.unwrap_or(0) as u32) << 16 | (w & !(OPCODE_BITS | RCODE_BITS)) as u32), "flags()");
    let dnssec = if w & 0x8000 == 0 { pp.ext_flags.unwrap_or(0) & 0x8000 != 0 } else { w & 0x0020 != 0 };
    vassert!(pp.dnssec() == dnssec, "dnssec(): DO for queries, AD for responses");
    vcover!(s, true, "end");
    Ok(())
}
