//! Native replayer: runs a harness body against the real build of the
//! library with the inputs of a solver counterexample.
//! usage: replay <harness> <vals.json>   (vals.json: [[b,b,..],[..],..])
use dnsverif::src::*;
use std::panic;

fn parse_vals(txt: &str) -> Vec<Vec<u8>> {
    // minimal parser for [[1,2],[3]] 
    let mut out = Vec::new();
    let mut cur: Option<Vec<u8>> = None;
    let mut num: Option<u32> = None;
    let mut depth = 0;
    for ch in txt.chars() {
        match ch {
            '[' => {
                depth += 1;
                if depth == 2 {
                    cur = Some(Vec::new());
                }
            }
            ']' => {
                if let (Some(n), Some(c)) = (num.take(), cur.as_mut()) {
                    c.push(n as u8);
                }
                if depth == 2 {
                    out.push(cur.take().unwrap());
                }
                depth -= 1;
            }
            ',' => {
                if let (Some(n), Some(c)) = (num.take(), cur.as_mut()) {
                    c.push(n as u8);
                }
            }
            d if d.is_ascii_digit() => {
                num = Some(num.unwrap_or(0) * 10 + d.to_digit(10).unwrap());
            }
            _ => {}
        }
    }
    out
}

fn run_sample(body: dnsverif::registry::SampleBody, seed: u32) -> Option<String> {
    let mut src = SampleSrc::new(seed);
    let res = panic::catch_unwind(panic::AssertUnwindSafe(|| body(&mut src)));
    if src.assumption_failed {
        return None;
    }
    match res {
        Ok(Ok(())) => None,
        Ok(Err("ASSUMPTION-NOT-MET")) => None,
        Ok(Err(role)) => Some(format!("violated role={}", role)),
        Err(e) => {
            let msg = if let Some(s) = e.downcast_ref::<&str>() {
                s.to_string()
            } else if let Some(s) = e.downcast_ref::<String>() {
                s.clone()
            } else {
                "?".to_string()
            };
            Some(format!("panic msg={}", msg.replace('\n', " ")))
        }
    }
}

fn main() {
    let args: Vec<String> = std::env::args().collect();
    if args.len() == 2 && args[1] == "--list" {
        for n in dnsverif::registry::all_names().iter() {
            println!("{}", n);
        }
        return;
    }
    if args.len() >= 2 && args[1] == "--selfcheck" {
        // run every harness body natively on a few fixed sample inputs
        let filter = args.get(2).cloned().unwrap_or_default();
        let mut bad = 0;
        let mut n = 0;
        for name in dnsverif::registry::all_names().iter() {
            if !name.contains(&filter) {
                continue;
            }
            let body = dnsverif::registry::lookup_sample_any(name).unwrap();
            for seed in 0..10u32 {
                let mut src = SampleSrc::new(seed);
                let res = panic::catch_unwind(panic::AssertUnwindSafe(|| body(&mut src)));
                n += 1;
                if src.assumption_failed {
                    continue;
                }
                match res {
                    Ok(Ok(())) => {}
                    Ok(Err("ASSUMPTION-NOT-MET")) => {}
                    Ok(Err(role)) => {
                        bad += 1;
                        println!("SELFCHECK {} seed={} violated role={}", name, seed, role);
                    }
                    Err(e) => {
                        bad += 1;
                        let msg = if let Some(s) = e.downcast_ref::<&str>() { s.to_string() } else if let Some(s) = e.downcast_ref::<String>() { s.clone() } else { "?".to_string() };
                        println!("SELFCHECK {} seed={} panic {}", name, seed, msg.replace('\n', " "));
                    }
                }
            }
        }
        println!("SELFCHECK done runs={} bad={}", n, bad);
        std::process::exit(if bad > 0 { 1 } else { 0 });
    }
    if args.len() >= 3 && args[1] == "--sample" {
        // replay <--sample> <harness> [nseeds]: first sample input on which the body fails natively
        let n: u32 = args.get(3).and_then(|x| x.parse().ok()).unwrap_or(40);
        let body = match dnsverif::registry::lookup_sample_any(&args[2]) {
            Some(b) => b,
            None => {
                println!("REPLAY unknown-harness {}", args[2]);
                std::process::exit(2);
            }
        };
        for seed in 0..n {
            if let Some(out) = run_sample(body, seed) {
                println!("SAMPLE seed={} {}", seed, out);
                return;
            }
        }
        println!("SAMPLE none");
        return;
    }
    if args.len() < 3 {
        eprintln!("usage: replay <harness> <vals.json>");
        std::process::exit(2);
    }
    let body = match dnsverif::registry::lookup_any(&args[1]) {
        Some(b) => b,
        None => {
            println!("REPLAY unknown-harness {}", args[1]);
            std::process::exit(2);
        }
    };
    let txt = std::fs::read_to_string(&args[2]).expect("vals file");
    if let Some(i) = txt.find("\"sample_seed\"") {
        let num: String = txt[i + 13..].chars().skip_while(|c| !c.is_ascii_digit()).take_while(|c| c.is_ascii_digit()).collect();
        let seed: u32 = num.parse().expect("seed");
        let body = dnsverif::registry::lookup_sample_any(&args[1]).expect("harness");
        match run_sample(body, seed) {
            Some(out) => println!("REPLAY {}", out),
            None => println!("REPLAY ok exhausted=false"),
        }
        return;
    }
    // the file may be a JSON object with a "vals" key; take the bracketed part after it
    let txt = match txt.find("\"vals\"") {
        Some(i) => txt[i + 6..].to_string(),
        None => txt,
    };
    // cut at the matching end of the outer list
    let start = txt.find('[').expect("list");
    let mut depth = 0;
    let mut end = txt.len();
    for (i, ch) in txt[start..].char_indices() {
        if ch == '[' {
            depth += 1;
        }
        if ch == ']' {
            depth -= 1;
            if depth == 0 {
                end = start + i + 1;
                break;
            }
        }
    }
    let vals = parse_vals(&txt[start..end]);
    let mut src = ReplaySrc::new(vals);
    let res = panic::catch_unwind(panic::AssertUnwindSafe(|| body(&mut src)));
    if src.assumption_failed {
        println!("REPLAY assumption-not-met");
        return;
    }
    match res {
        Ok(Ok(())) => {
            println!("REPLAY ok exhausted={}", src.exhausted);
        }
        Ok(Err(role)) => {
            if role == "ASSUMPTION-NOT-MET" {
                println!("REPLAY assumption-not-met");
            } else {
                println!("REPLAY violated role={}", role);
            }
        }
        Err(e) => {
            let msg = if let Some(s) = e.downcast_ref::<&str>() {
                s.to_string()
            } else if let Some(s) = e.downcast_ref::<String>() {
                s.clone()
            } else {
                "?".to_string()
            };
            println!("REPLAY panic msg={}", msg.replace('\n', " "));
        }
    }
}
