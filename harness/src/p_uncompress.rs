//! C05 — decompression keeps the message; output is pointer-free, valid and
//! stable; record-boundary offsets are carried across.
use crate::skel::*;
use crate::spec;
use crate::src::*;
use crate::util::*;
use dnssector::*;

/// MODE 0: content; MODE 1: output accepted + second decompression is the
/// identity; MODE 2+i: the boundary before record i (i == number of records:
/// end of packet) is carried to the same boundary of the output.
pub fn uncompress<S: Src, K: Skel, const MODE: usize>(s: &mut S) -> Verdict {
    let p = K::build(s);
    let (recs, n) = recs_of::<K>();
    let mut orecs = [spec::NOREC; spec::MAX_RR];
    let olen = spec::expanded_layout(&p, &recs[..n], &mut orecs);
    cut_errors(2);
    if MODE >= 2 {
        let i = MODE - 2;
        let b = if i < n { recs[i].start } else { p.len() };
        let want = if i < n { orecs[i].start } else { olen };
        let r = Compress::uncompress_with_previous_offset(&p, b);
        cut_errors(0);
        match r {
            Ok((out, nb)) => {
                vassert!(out.len() == olen, "uncompress_with_previous_offset: output length");
                vassert!(nb == want, "uncompress_with_previous_offset: returns the offset of the same record boundary in the output");
            }
            Err(_) => vassert!(false, "uncompress_with_previous_offset succeeds on an accepted packet"),
        }
        vcover!(s, true, "end");
        return Ok(());
    }
    let r = Compress::uncompress(&p);
    vassert!(r.is_ok(), "uncompress succeeds on an accepted packet");
    let out = match r {
        Ok(o) => o,
        Err(_) => return Ok(()),
    };
    vassert!(out.len() == olen, "uncompress: output length = header + expanded records");
    if MODE == 0 {
        cut_errors(0);
        vassert!(spec::bytes_eq(&p, 0, &out, 0, 12), "uncompress: identical header");
        let mut i = 0;
        while i < n {
            vassert!(spec::rec_eq(&p, &recs[i], &out, &orecs[i], false), "uncompress: record decodes to the identical record (names byte-identical)");
            if orecs[i].section != 0 {
                vassert!(spec::rd16(&out, orecs[i].name_end + 8) as usize == orecs[i].rdlen, "uncompress: data length of the expanded record");
            }
            i += 1;
        }
        vassert!(!spec::recs_have_pointer(&out, &orecs[..n]), "uncompress: no compression pointer left in any understood name");
    } else {
        let r2 = real_parse(&out);
        vassert!(r2.is_ok(), "uncompress: the output is accepted by the parser");
        let again = Compress::uncompress(&out);
        cut_errors(0);
        match again {
            Ok(o2) => vassert!(slices_eq(&o2, &out), "uncompress: a second decompression changes nothing"),
            Err(_) => vassert!(false, "uncompress: second decompression succeeds"),
        }
    }
    vcover!(s, true, "end");
    Ok(())
}
