//! C15 — the C function table is a faithful, memory-safe facade over the
//! native API. The table is driven the way a C hook drives it: through the
//! function pointers of `fn_table()`, with section callbacks.
use crate::skel::*;
use crate::spec;
use crate::src::*;
use crate::util::*;
use dnssector::*;
use std::ffi::c_void;
use std::net::{IpAddr, Ipv4Addr, Ipv6Addr};

pub const MAXR: usize = 4;

/// what a callback records about the records it is shown
pub struct Seen {
    pub table: FnTable,
    pub n: usize,
    pub names: [[u8; 256]; MAXR],
    pub types: [u16; MAXR],
    pub classes: [u16; MAXR],
    pub ttls: [u32; MAXR],
    pub ips: [[u8; 32]; MAXR],
    pub ip_lens: [usize; MAXR],
    /// capacity the hook announces to rr_ip (a 32-byte buffer: any value 16..=32)
    pub ip_cap: usize,
    // write script (applied to record `target`)
    pub target: usize,
    pub do_write: bool,
    pub new_ttl: u32,
    pub new_ip: [u8; 16],
    pub do_delete: bool,
    pub do_set_name: u8, // 0 no, 1 set_raw_name(good), 2 set_raw_name(bad), 3 set_name(text)
    pub rc: i32,
}

impl Seen {
    pub fn new() -> Seen {
        Seen {
            table: fn_table(),
            n: 0,
            names: [[0xAAu8; 256]; MAXR],
            types: [0; MAXR],
            classes: [0; MAXR],
            ttls: [0; MAXR],
            ips: [[0; 32]; MAXR],
            ip_lens: [0; MAXR],
            ip_cap: 16,
            target: 99,
            do_write: false,
            new_ttl: 0,
            new_ip: [0; 16],
            do_delete: false,
            do_set_name: 0,
            rc: 0,
        }
    }
}

pub const GOOD_NAME: &[u8] = &[2, b'o', b'k', 3, b'n', b'e', b't', 0];
pub const BAD_NAME: &[u8] = &[5, b'x', b'y'];

pub unsafe extern "C" fn cb(ctx: *mut c_void, it: *const SectionIterator) -> bool {
    let seen = &mut *(ctx as *mut Seen);
    let it = &mut *(it as *mut SectionIterator);
    let k = seen.n;
    if k >= MAXR {
        return true;
    }
    if k == seen.target {
        if seen.do_write {
            (seen.table.set_rr_ttl)(it, seen.new_ttl);
            let t = (seen.table.rr_type)(it);
            if t == 1 {
                (seen.table.set_rr_ip)(it, seen.new_ip.as_ptr(), 4);
            } else if t == 28 {
                (seen.table.set_rr_ip)(it, seen.new_ip.as_ptr(), 16);
            }
        }
        match seen.do_set_name {
            1 => seen.rc = (seen.table.set_raw_name)(it, std::ptr::null_mut(), GOOD_NAME.as_ptr(), GOOD_NAME.len()),
            2 => seen.rc = (seen.table.set_raw_name)(it, std::ptr::null_mut(), BAD_NAME.as_ptr(), BAD_NAME.len()),
            3 => seen.rc = (seen.table.set_name)(it, std::ptr::null_mut(), b"Ok.Net".as_ptr() as *const _, 6, std::ptr::null(), 0),
            _ => {}
        }
        if seen.do_delete {
            seen.rc = (seen.table.delete)(it, std::ptr::null_mut());
            seen.n += 1;
            return false;
        }
    }
    (seen.table.name)(it, &mut seen.names[k]);
    seen.types[k] = (seen.table.rr_type)(it);
    seen.classes[k] = (seen.table.rr_class)(it);
    seen.ttls[k] = (seen.table.rr_ttl)(it);
    if seen.types[k] == 1 || seen.types[k] == 28 {
        let mut len: usize = seen.ip_cap;
        (seen.table.rr_ip)(it, seen.ips[k].as_mut_ptr(), &mut len);
        seen.ip_lens[k] = len;
    }
    seen.n += 1;
    false
}

fn parse2<K: Skel, S: Src>(s: &mut S) -> Result<(Vec<u8>, ParsedPacket, ParsedPacket), &'static str> {
    let p = K::build_cl(s);
    cut_errors(2);
    let a = real_parse(&p);
    let b = real_parse(&p);
    match (a, b) {
        (Ok(a), Ok(b)) => Ok((p, a, b)),
        _ => Err("accepted: the skeleton is well-formed"),
    }
}

fn cstr_is(buf: &[u8; 256], want: &[u8]) -> bool {
    if want.len() >= 256 {
        return false;
    }
    let mut ok = true;
    let mut i = 0;
    while i < want.len() {
        ok &= buf[i] == want[i];
        i += 1;
    }
    ok && buf[want.len()] == 0
}

/// header accessors and setters, and a read-only walk of section SEC through
/// the section callback, against the native API on a twin object
pub fn read<S: Src, K: Skel, const SEC: u8>(s: &mut S) -> Verdict {
    let (p, mut pp, mut twin) = parse2::<K, S>(s)?;
    cut_errors(0);
    let mut seen = Seen::new();
    // the hook's address buffer is 32 bytes; it may announce any capacity that holds an IPv6 address
    let cap = 16 + (s.u8() % 17) as usize;
    seen.ip_cap = cap;
    vassert!(seen.table.abi_version == 2, "table: ABI version as in the header (0x2)");
    unsafe {
        vassert!((seen.table.flags)(&pp) == twin.flags(), "table flags() == native");
        vassert!((seen.table.rcode)(&pp) == twin.rcode(), "table rcode() == native");
        vassert!((seen.table.opcode)(&pp) == twin.opcode(), "table opcode() == native");
        let (f, r, o) = (s.u32(), s.u8(), s.u8());
        (seen.table.set_flags)(&mut pp, f);
        (seen.table.set_rcode)(&mut pp, r);
        (seen.table.set_opcode)(&mut pp, o);
        twin.set_flags(f);
        twin.set_rcode(r);
        twin.set_opcode(o);
        vassert!(slices_eq(pp.packet(), twin.packet()), "table set_flags/set_rcode/set_opcode == native");
        let ctx = &mut seen as *mut Seen as *mut c_void;
        match SEC {
            1 => (seen.table.iter_answer)(&mut pp, cb, ctx),
            2 => (seen.table.iter_nameservers)(&mut pp, cb, ctx),
            _ => (seen.table.iter_additional)(&mut pp, cb, ctx),
        }
    }
    // native walk of the twin
    let mut k = 0;
    let mut cur = match SEC {
        1 => twin.into_iter_answer(),
        2 => twin.into_iter_nameservers(),
        _ => twin.into_iter_additional(),
    };
    while let Some(it) = cur {
        vassert!(k < seen.n, "callback: called once per record of the section");
        let name = it.name();
        vassert!(cstr_is(&seen.names[k], &name), "table name(): the native name, NUL-terminated inside the 256-byte buffer");
        vassert!(seen.types[k] == it.rr_type(), "table rr_type() == native");
        vassert!(seen.classes[k] == it.rr_class(), "table rr_class() == native");
        vassert!(seen.ttls[k] == it.rr_ttl(), "table rr_ttl() == native");
        match it.rr_ip() {
            Ok(IpAddr::V4(a)) => {
                vassert!(seen.ip_lens[k] == 4 && slices_eq(&seen.ips[k][..4], &a.octets()), "table rr_ip(): exactly 4 address bytes");
                vassert!(seen.ips[k][4] == 0 && seen.ips[k][15] == 0 && seen.ips[k][16] == 0 && seen.ips[k][31] == 0, "table rr_ip(): nothing written beyond the 4 bytes");
            }
            Ok(IpAddr::V6(a)) => {
                vassert!(seen.ip_lens[k] == 16 && slices_eq(&seen.ips[k][..16], &a.octets()), "table rr_ip(): exactly 16 address bytes");
                vassert!(seen.ips[k][16] == 0 && seen.ips[k][31] == 0, "table rr_ip(): nothing written beyond the 16 bytes");
            }
            Err(_) => {}
        }
        k += 1;
        cur = it.next();
    }
    vassert!(k == seen.n, "callback: called once per record of the section");
    vassert!(slices_eq(pp.packet(), twin.packet()), "reading through the table leaves the packet as the native API does");
    vcover!(s, seen.n > 0, "at least one record seen");
    Ok(())
}

/// writes through the table inside the callback (TTL, address, name, delete)
/// on record TARGET of the answer section, against the same native operations
/// MODE 0: set_rr_ttl + set_rr_ip; 1: set_raw_name (good); 2: set_raw_name
/// (ill-formed: -1, nothing changes); 3: set_name (text); 4: delete
pub fn write<S: Src, K: Skel, const TARGET: usize, const MODE: u8>(s: &mut S) -> Verdict {
    let (p, mut pp, mut twin) = parse2::<K, S>(s)?;
    // operations that must succeed run with "library error = failed check" (parse2 set it);
    // the refused name and the address setters (PropertyNotFound paths) explore error paths
    if MODE == 0 || MODE == 2 {
        cut_errors(0);
    }
    let mut seen = Seen::new();
    seen.target = TARGET;
    seen.new_ttl = s.u32();
    let mut i = 0;
    while i < 16 {
        seen.new_ip[i] = s.u8();
        i += 1;
    }
    match MODE {
        0 => seen.do_write = true,
        4 => seen.do_delete = true,
        m => seen.do_set_name = m,
    }
    unsafe {
        let ctx = &mut seen as *mut Seen as *mut c_void;
        (seen.table.iter_answer)(&mut pp, cb, ctx);
    }
    // the same natively on the twin
    let mut native_rc = 0i32;
    let mut k = 0;
    let mut cur = twin.into_iter_answer();
    while let Some(mut it) = cur {
        if k == TARGET {
            match MODE {
                0 => {
                    it.set_rr_ttl(seen.new_ttl);
                    let t = it.rr_type();
                    if t == 1 {
                        let a = &seen.new_ip;
                        let _ = it.set_rr_ip(&IpAddr::V4(Ipv4Addr::new(a[0], a[1], a[2], a[3])));
                    } else if t == 28 {
                        let _ = it.set_rr_ip(&IpAddr::V6(Ipv6Addr::from(seen.new_ip)));
                    }
                }
                1 => native_rc = if it.set_raw_name(GOOD_NAME).is_ok() { 0 } else { -1 },
                2 => native_rc = if it.set_raw_name(BAD_NAME).is_ok() { 0 } else { -1 },
                3 => {
                    native_rc = match r#gen::raw_name_from_str(b"Ok.Net", None) {
                        Ok(raw) => {
                            if it.set_raw_name(&raw).is_ok() {
                                0
                            } else {
                                -1
                            }
                        }
                        Err(_) => -1,
                    }
                }
                _ => native_rc = if it.delete().is_ok() { 0 } else { -1 },
            }
            break;
        }
        k += 1;
        cur = it.next();
    }
    cut_errors(0);
    vassert!(seen.rc == native_rc, "table call returns 0 / -1 exactly as the native operation succeeds / fails");
    if MODE == 2 {
        vassert!(seen.rc == -1, "table set_raw_name: an ill-formed name is reported as -1");
    }
    vassert!(slices_eq(pp.packet(), twin.packet()), "after the table call the packet equals the packet after the native operation");
    vassert!(pp.offset_answers == twin.offset_answers && pp.offset_additional == twin.offset_additional && pp.offset_edns == twin.offset_edns && pp.maybe_compressed == twin.maybe_compressed, "after the table call the object state equals the native one");
    vcover!(s, true, "end");
    Ok(())
}

/// copy-out entries: raw_packet (capacity symbolic around the length),
/// question, raw_name_from_str
pub fn copyout<S: Src, K: Skel>(s: &mut S) -> Verdict {
    let (p, mut pp, mut twin) = parse2::<K, S>(s)?;
    cut_errors(0);
    let table = fn_table();
    let mut big: Box<[u8; 8192]> = Box::new([0x55u8; 8192]);
    // capacity: every value from 0 to len + 2 (drawn as len + 2 - d so that sample payloads
    // also hit the values around the packet length)
    let d = s.usize();
    vassume!(d <= p.len() + 2);
    let cap = p.len() + 2 - d;
    let mut out_len: usize = 7777;
    let rc = unsafe { (table.raw_packet)(&pp, &mut big, &mut out_len, cap) };
    if cap >= p.len() {
        vassert!(rc == 0 && out_len == p.len(), "table raw_packet: copies when the packet fits the stated capacity");
        vassert!(slices_eq(&big[..p.len()], &p), "table raw_packet: the packet bytes");
        vassert!(big[p.len()] == 0x55, "table raw_packet: nothing written beyond the packet length");
    } else {
        vassert!(rc == -1, "table raw_packet: -1 when the packet does not fit the stated capacity");
        vassert!(big[0] == 0x55 && out_len == 7777, "table raw_packet: nothing written when it does not fit");
    }
    // question
    let mut name = [0xAAu8; 256];
    let mut qtype: u16 = 0;
    let rc = unsafe { (table.question)(&mut pp, &mut name, &mut qtype) };
    match twin.question() {
        Some((n, t, _)) => {
            vassert!(rc == 0 && qtype == t && cstr_is(&name, &n), "table question(): the native question, NUL-terminated");
        }
        None => vassert!(rc == -1, "table question(): -1 without a question"),
    }
    // raw_name_from_str
    let mut raw = [0xAAu8; 256];
    let mut raw_len: usize = 0;
    let text = b"Ab.cd";
    let rc = unsafe { (table.raw_name_from_str)(&mut raw, &mut raw_len, std::ptr::null_mut(), text.as_ptr() as *const _, text.len()) };
    match r#gen::raw_name_from_str(text, None) {
        Ok(w) => {
            vassert!(rc == 0 && raw_len == w.len() && slices_eq(&raw[..w.len()], &w), "table raw_name_from_str == native");
            vassert!(raw[w.len()] == 0xAA, "table raw_name_from_str: nothing written beyond the name");
        }
        Err(_) => vassert!(rc == -1, "table raw_name_from_str: -1 when the native conversion fails"),
    }
    let bad = b"a..b";
    let rc = unsafe { (table.raw_name_from_str)(&mut raw, &mut raw_len, std::ptr::null_mut(), bad.as_ptr() as *const _, bad.len()) };
    vassert!(rc == -1, "table raw_name_from_str: an empty interior label is reported as -1");
    vcover!(s, cap < p.len(), "capacity too small");
    vcover!(s, cap >= p.len(), "capacity sufficient");
    Ok(())
}

/// rename_with_raw_names through the table against the native call
pub fn rename<S: Src, K: Skel>(s: &mut S) -> Verdict {
    let (p, mut pp, mut twin) = parse2::<K, S>(s)?;
    let table = fn_table();
    let src: &[u8] = &[2, b'z', b'z', 0];
    let tgt: &[u8] = &[3, b'n', b'e', b'w', 0];
    let rc = unsafe { (table.rename_with_raw_names)(&mut pp, std::ptr::null_mut(), tgt.as_ptr(), tgt.len(), src.as_ptr(), src.len(), true) };
    let nat = twin.rename_with_raw_names(tgt, src, true);
    cut_errors(0);
    vassert!((rc == 0) == nat.is_ok(), "table rename_with_raw_names returns 0 / -1 as the native call succeeds / fails");
    vassert!(pp.packet.is_some() && twin.packet.is_some() && slices_eq(pp.packet(), twin.packet()), "table rename_with_raw_names leaves the same packet as the native call");
    vcover!(s, true, "end");
    Ok(())
}

/// stand-in for `c_abi::throw_err` under the model checker (its
/// `thread_local!` with a destructor crashes kani-compiler 0.68): the error
/// description is not stored; the -1 convention is kept.
pub fn throw_err_stub(_e: Error, _c_err: *mut *const CErr) -> i32 {
    -1
}
