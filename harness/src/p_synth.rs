//! C13 — record text synthesises to the right wire record; bad text is an error.
use crate::skel::*;
use crate::spec;
use crate::src::*;
use crate::util::*;
use dnssector::*;
use std::net::{Ipv4Addr, Ipv6Addr};

/// expected wire form of a record: owner labels `owner` (dot-separated text,
/// no trailing dot), type, class IN, ttl, rdata
fn wire_of(owner: &[u8], rtype: u16, ttl: u32, rdata: &[u8]) -> Vec<u8> {
    let mut v = Vec::new();
    push_name(&mut v, owner);
    v.push((rtype >> 8) as u8);
    v.push(rtype as u8);
    v.push(0);
    v.push(1);
    v.push((ttl >> 24) as u8);
    v.push((ttl >> 16) as u8);
    v.push((ttl >> 8) as u8);
    v.push(ttl as u8);
    v.push((rdata.len() >> 8) as u8);
    v.push(rdata.len() as u8);
    v.extend_from_slice(rdata);
    v
}

/// RFC 1035 wire form of a dot-separated concrete text name
fn push_name(v: &mut Vec<u8>, text: &[u8]) {
    let mut i = 0;
    while i < text.len() {
        let mut e = i;
        while e < text.len() && text[e] != b'.' {
            e += 1;
        }
        if e > i {
            v.push((e - i) as u8);
            v.extend_from_slice(&text[i..e]);
        }
        i = e + 1;
    }
    v.push(0);
}

fn hdr(name: &[u8], ttl: u32, t: Type) -> r#gen::RRHeader {
    r#gen::RRHeader { name: name.to_vec(), ttl, class: Class::IN, rr_type: t }
}

/// the nine builders with symbolic numeric fields and concrete names
pub fn builders<S: Src, const WHICH: u8>(s: &mut S) -> Verdict {
    let ttl = s.u32();
    let owner: &[u8] = b"ab.cd";
    cut_errors(2);
    let (got, want) = match WHICH {
        0 => {
            let a = [s.u8(), s.u8(), s.u8(), s.u8()];
            (r#gen::A::build(hdr(owner, ttl, Type::A), Ipv4Addr::new(a[0], a[1], a[2], a[3])), wire_of(owner, 1, ttl, &a))
        }
        1 => {
            let a: [u8; 16] = sym_bytes::<S, 16>(s);
            (r#gen::AAAA::build(hdr(owner, ttl, Type::AAAA), Ipv6Addr::from(a)), wire_of(owner, 28, ttl, &a))
        }
        2 => {
            let mut rd = Vec::new();
            push_name(&mut rd, b"ns1.ef");
            (r#gen::NS::build(hdr(owner, ttl, Type::NS), b"ns1.ef".to_vec()), wire_of(owner, 2, ttl, &rd))
        }
        3 => {
            let mut rd = Vec::new();
            push_name(&mut rd, b"x.y.z");
            (r#gen::CNAME::build(hdr(owner, ttl, Type::CNAME), b"x.y.z.".to_vec()), wire_of(owner, 5, ttl, &rd))
        }
        4 => {
            let mut rd = Vec::new();
            push_name(&mut rd, b"p.q");
            (r#gen::PTR::build(hdr(owner, ttl, Type::PTR), b"p.q".to_vec()), wire_of(owner, 12, ttl, &rd))
        }
        5 => {
            let pref = s.u16();
            let mut rd = vec![(pref >> 8) as u8, pref as u8];
            push_name(&mut rd, b"mx.ef");
            (r#gen::MX::build(hdr(owner, ttl, Type::MX), pref, b"mx.ef".to_vec()), wire_of(owner, 15, ttl, &rd))
        }
        6 => {
            let c = [s.u32(), s.u32(), s.u32(), s.u32(), s.u32()];
            let mut rd = Vec::new();
            push_name(&mut rd, b"ns.ef");
            push_name(&mut rd, b"h.ef");
            let mut k = 0;
            while k < 5 {
                rd.push((c[k] >> 24) as u8);
                rd.push((c[k] >> 16) as u8);
                rd.push((c[k] >> 8) as u8);
                rd.push(c[k] as u8);
                k += 1;
            }
            (r#gen::SOA::build(hdr(owner, ttl, Type::SOA), b"ns.ef".to_vec(), b"h.ef".to_vec(), c[0], c[1], c[2], c[3], c[4]), wire_of(owner, 6, ttl, &rd))
        }
        7 => {
            let tag = s.u16();
            let alg = s.u8();
            let dt = s.u8();
            let d = [s.u8(), s.u8(), s.u8()];
            let rd = vec![(tag >> 8) as u8, tag as u8, alg, dt, d[0], d[1], d[2]];
            (r#gen::DS::build(hdr(owner, ttl, Type::DS), tag, alg, dt, d.to_vec()), wire_of(owner, 43, ttl, &rd))
        }
        _ => {
            let t = [s.u8(), s.u8(), s.u8()];
            let rd = vec![3, t[0], t[1], t[2]];
            (r#gen::TXT::build(hdr(owner, ttl, Type::TXT), t.to_vec()), wire_of(owner, 16, ttl, &rd))
        }
    };
    cut_errors(0);
    match got {
        Ok(rr) => vassert!(slices_eq(&rr.packet, &want), "builder: exactly the RFC 1035 wire form of the record"),
        Err(_) => vassert!(false, "builder succeeds on valid fields"),
    }
    vcover!(s, true, "end");
    Ok(())
}

/// TXT chunking at the 255/256 boundary: LEN bytes of symbolic content
pub fn txt_chunks<S: Src, const LEN: usize>(s: &mut S) -> Verdict {
    let c = s.u8();
    let mut t = vec![c; LEN];
    if LEN > 0 {
        t[LEN - 1] = s.u8();
    }
    cut_errors(2);
    let got = r#gen::TXT::build(hdr(b"t.x", 5, Type::TXT), t.clone());
    cut_errors(0);
    // RFC 1035: character-strings of at most 255 bytes each
    let mut rd = Vec::new();
    let mut i = 0;
    while i < LEN {
        let l = if LEN - i > 255 { 255 } else { LEN - i };
        rd.push(l as u8);
        rd.extend_from_slice(&t[i..i + l]);
        i += l;
    }
    let want = wire_of(b"t.x", 16, 5, &rd);
    match got {
        Ok(rr) => vassert!(slices_eq(&rr.packet, &want), "TXT::build: chunks of at most 255 bytes, each prefixed by its length"),
        Err(_) => vassert!(false, "TXT::build succeeds"),
    }
    vcover!(s, true, "end");
    Ok(())
}

fn as_str(b: &[u8]) -> &str {
    // only called on ASCII bytes
    unsafe { std::str::from_utf8_unchecked(b) }
}

/// `RR::from_string` on a concrete template with one symbolic byte X at a
/// chosen place; the oracle says for which X the text is in the grammar and
/// what the wire form then is.
pub fn template<S: Src, const T: usize>(s: &mut S) -> Verdict {
    let x = s.u8();
    vassume!(x < 128);
    let mut text: Vec<u8> = Vec::new();
    // (accept?, expected wire)
    let (accept, want): (bool, Vec<u8>) = match T {
        // last digit of the TTL
        0 => {
            text.extend_from_slice(b"ab.cd 36");
            text.push(x);
            text.extend_from_slice(b" IN A 1.2.3.4");
            let d = x.wrapping_sub(b'0') as u32;
            // a space or tab here ends the TTL after "36" (more whitespace follows)
            let ws = x == b' ' || x == b'\t';
            ((x >= b'0' && x <= b'9') || ws, wire_of(b"ab.cd", 1, if ws { 36 } else { 360 + d }, &[1, 2, 3, 4]))
        }
        // TTL at the 2^32 edge: 429496729X accepted for X <= 5
        1 => {
            text.extend_from_slice(b"ab.cd 429496729");
            text.push(x);
            text.extend_from_slice(b" IN A 1.2.3.4");
            let d = x.wrapping_sub(b'0') as u32;
            let ws = x == b' ' || x == b'\t';
            ((x >= b'0' && x <= b'5') || ws, wire_of(b"ab.cd", 1, if ws { 429496729 } else { 4294967290u32.wrapping_add(d) }, &[1, 2, 3, 4]))
        }
        // last octet digit: 25X accepted for X <= 5
        2 => {
            text.extend_from_slice(b"ab.cd 7 IN A 1.2.3.25");
            text.push(x);
            let d = x.wrapping_sub(b'0');
            // trailing horizontal whitespace is part of the grammar
            let ws = x == b' ' || x == b'\t';
            ((x >= b'0' && x <= b'5') || ws, wire_of(b"ab.cd", 1, 7, &[1, 2, 3, if ws { 25 } else { 250u8.wrapping_add(d) }]))
        }
        // the separator between TTL and class: ttl_parser requires one horizontal whitespace
        3 => {
            text.extend_from_slice(b"ab.cd 7");
            text.push(x);
            text.extend_from_slice(b"IN A 1.2.3.4");
            (x == b' ' || x == b'\t', wire_of(b"ab.cd", 1, 7, &[1, 2, 3, 4]))
        }
        // keyword case: I{X}
        4 => {
            text.extend_from_slice(b"ab.cd 7 I");
            text.push(x);
            text.extend_from_slice(b" A 1.2.3.4");
            (x == b'N' || x == b'n', wire_of(b"ab.cd", 1, 7, &[1, 2, 3, 4]))
        }
        // MX preference edge 6553X
        5 => {
            text.extend_from_slice(b"ab.cd 7 IN MX 6553");
            text.push(x);
            text.extend_from_slice(b" m.x");
            let d = x.wrapping_sub(b'0') as u16;
            let ws = x == b' ' || x == b'\t';
            let pref = if ws { 6553 } else { 65530u16.wrapping_add(d) };
            let mut rd = vec![(pref >> 8) as u8, pref as u8];
            push_name(&mut rd, b"m.x");
            ((x >= b'0' && x <= b'5') || ws, wire_of(b"ab.cd", 15, 7, &rd))
        }
        // a TXT character: printable ASCII except backslash and the closing quote
        6 => {
            text.extend_from_slice(b"ab.cd 7 IN TXT \"a");
            text.push(x);
            text.extend_from_slice(b"c\"");
            (x > 31 && x < 127 && x != b'\\' && x != b'"', wire_of(b"ab.cd", 16, 7, &[3, b'a', x, b'c']))
        }
        // TXT decimal escape \DDD: last digit
        7 => {
            text.extend_from_slice(b"ab.cd 7 IN TXT \"\\25");
            text.push(x);
            text.extend_from_slice(b"\"");
            let d = x.wrapping_sub(b'0');
            (x >= b'0' && x <= b'5', wire_of(b"ab.cd", 16, 7, &[1, 250u8.wrapping_add(d)]))
        }
        // DS digest: second hex digit
        8 => {
            text.extend_from_slice(b"ab.cd 7 IN DS 9 8 2 a");
            text.push(x);
            let hv = |c: u8| -> u8 {
                if c >= b'0' && c <= b'9' { c - b'0' } else if c >= b'a' && c <= b'f' { c - b'a' + 10 } else if c >= b'A' && c <= b'F' { c - b'A' + 10 } else { 0 }
            };
            let ishex = (x >= b'0' && x <= b'9') || (x >= b'a' && x <= b'f') || (x >= b'A' && x <= b'F');
            // trailing horizontal whitespace is allowed by the grammar: "a" alone is an odd-length digest
            (ishex, wire_of(b"ab.cd", 43, 7, &[0, 9, 8, 2, 0xa0 | hv(x)]))
        }
        // a character of the owner name
        9 => {
            text.extend_from_slice(b"a");
            text.push(x);
            text.extend_from_slice(b".cd 7 IN A 1.2.3.4");
            let ok = spec::is_ldhu(x) && x != b'_';
            let name = [b'a', x, b'.', b'c', b'd'];
            (ok, wire_of(&name, 1, 7, &[1, 2, 3, 4]))
        }
        // TXT decimal escape \\X55: first digit (values up to 255 only)
        11 => {
            text.extend_from_slice(b"ab.cd 7 IN TXT \"\\");
            text.push(x);
            text.extend_from_slice(b"55\"");
            let d = x.wrapping_sub(b'0');
            (x >= b'0' && x <= b'2', wire_of(b"ab.cd", 16, 7, &[1, d.wrapping_mul(100).wrapping_add(55)]))
        }
        // last character of an NS target (trailing position: the prefix parses concretely)
        12 => {
            text.extend_from_slice(b"ab.cd 7 IN NS n.e");
            text.push(x);
            let ws = x == b' ' || x == b'\t';
            let ok = (spec::is_ldhu(x) && x != b'_') || ws;
            let mut rd = Vec::new();
            if ws {
                push_name(&mut rd, b"n.e");
            } else {
                push_name(&mut rd, &[b'n', b'.', b'e', x]);
            }
            (ok, wire_of(b"ab.cd", 2, 7, &rd))
        }
        // SOA: the last counter digit
        _ => {
            text.extend_from_slice(b"ab.cd 7 IN SOA n.s h.m (1 2 3 4 ");
            text.push(x);
            text.extend_from_slice(b")");
            let mut rd = Vec::new();
            push_name(&mut rd, b"n.s");
            push_name(&mut rd, b"h.m");
            let d = x.wrapping_sub(b'0') as u32;
            let cs = [1u32, 2, 3, 4, d];
            let mut k = 0;
            while k < 5 {
                rd.extend_from_slice(&[(cs[k] >> 24) as u8, (cs[k] >> 16) as u8, (cs[k] >> 8) as u8, cs[k] as u8]);
                k += 1;
            }
            (x >= b'0' && x <= b'9', wire_of(b"ab.cd", 6, 7, &rd))
        }
    };
    let r = r#gen::RR::from_string(as_str(&text));
    match r {
        Ok(rr) => {
            vassert!(accept, "from_string: text outside the grammar yields an error");
            vassert!(slices_eq(&rr.packet, &want), "from_string: exactly the RFC 1035 wire form of the record");
            vcover!(s, true, "accepted");
        }
        Err(_) => {
            vassert!(!accept, "from_string: text in the grammar is accepted");
            vcover!(s, true, "rejected");
        }
    }
    Ok(())
}

/// `RR::from_string` on concrete texts: the systematically damaged variants of
/// the property's quantifier (each must be an error, never a panic) and one
/// valid text per type at boundary values (wire form must equal the RFC 1035
/// encoding). Concrete inputs: the solver executes the real parser on them;
/// the symbolic part of C13 is in the builders and templates.
pub fn concrete_text<S: Src, const T: usize>(s: &mut S) -> Verdict {
    let (text, want): (&str, Option<Vec<u8>>) = match T {
        // ---- damaged variants: must be errors
        0 => ("ab.cd 7 IN DS 9 8 2 abc", None),                 // odd number of hex digits
        1 => ("ab.cd 7 IN DS 9 8 2 zz", None),                  // non-hex digest
        2 => ("ab.cd 7 IN A 1.2.3.256", None),                  // octet out of range
        3 => ("ab.cd 4294967296 IN A 1.2.3.4", None),           // TTL 2^32
        4 => ("ab.cd 7 IN MX 65536 m.x", None),                 // preference 2^16
        5 => ("ab.cd 7 IN TXT \"abc", None),                    // unbalanced quote
        6 => ("ab.cd 7 IN TXT \"a\\300\"", None),               // escape above 255
        7 => ("ab.cd 7 IN A 1.2.3.4 5", None),                  // surplus field
        8 => ("ab.cd 7 IN MX 10", None),                        // missing field
        9 => ("ab.cd 7 CH A 1.2.3.4", None),                    // class other than IN
        10 => ("ab.cd 7 IN AAAA 1.2.3.4", None),                // malformed IPv6 address
        // ---- valid texts at boundary values
        11 => ("ab.cd 0 in a 255.0.0.255", Some(wire_of(b"ab.cd", 1, 0, &[255, 0, 0, 255]))),
        12 => ("ab.cd\t4294967295  IN\tMX  65535 m.x", {
            let mut rd = vec![0xff, 0xff];
            push_name(&mut rd, b"m.x");
            Some(wire_of(b"ab.cd", 15, 4294967295, &rd))
        }),
        13 => ("ab.cd 7 IN TXT \"\\255\\000a\"", Some(wire_of(b"ab.cd", 16, 7, &[3, 255, 0, b'a']))),
        14 => ("ab.cd 7 IN DS 65535 255 0 00fF", Some(wire_of(b"ab.cd", 43, 7, &[0xff, 0xff, 255, 0, 0x00, 0xff]))),
        _ => ("ab.cd 7 IN SOA n.s h.m (4294967295 0 1 2 3)", {
            let mut rd = Vec::new();
            push_name(&mut rd, b"n.s");
            push_name(&mut rd, b"h.m");
            rd.extend_from_slice(&[255, 255, 255, 255, 0, 0, 0, 0, 0, 0, 0, 1, 0, 0, 0, 2, 0, 0, 0, 3]);
            Some(wire_of(b"ab.cd", 6, 7, &rd))
        }),
    };
    let r = r#gen::RR::from_string(text);
    match (r, want) {
        (Ok(rr), Some(w)) => vassert!(slices_eq(&rr.packet, &w), "from_string: exactly the RFC 1035 wire form of the record"),
        (Err(_), None) => {}
        (Ok(_), None) => vassert!(false, "from_string: text outside the grammar yields an error"),
        (Err(_), Some(_)) => vassert!(false, "from_string: text in the grammar is accepted"),
    }
    vcover!(s, true, "end");
    Ok(())
}

/// every ASCII string of up to N bytes: no panic; (N is far too short for a
/// record, so) an error.
pub fn arbitrary<S: Src, const N: usize>(s: &mut S) -> Verdict {
    let buf: [u8; N] = sym_bytes::<S, N>(s);
    let len = s.usize();
    vassume!(len <= N);
    let mut i = 0;
    while i < N {
        vassume!(buf[i] < 128);
        i += 1;
    }
    let r = r#gen::RR::from_string(as_str(&buf[..len]));
    vassert!(r.is_err(), "from_string: a string too short to be a record is an error");
    vcover!(s, len == N, "full length");
    Ok(())
}

/// insert_rr_from_string of a concrete valid text of each type into section
/// SEC of a skeleton: the parser accepts the result.
pub fn insert_text<S: Src, K: Skel, const SEC: u8, const WHICH: u8>(s: &mut S) -> Verdict {
    let p = K::build(s);
    cut_errors(2);
    let r = real_parse(&p);
    vassert!(r.is_ok(), "accepted: the skeleton is well-formed");
    let mut pp = match r {
        Ok(pp) => pp,
        Err(_) => return Ok(()),
    };
    let text: &str = match WHICH {
        0 => "ab.cd 3600 IN A 10.0.0.1",
        1 => "ab.cd 3600 IN AAAA fe80::1",
        2 => "ab.cd\t60 in ns ns1.ef.",
        3 => "ab.cd 60 IN CNAME x.y",
        4 => "4.3.2.1.in-addr.arpa. 60 IN PTR h.ef",
        5 => "ab.cd 60 IN MX 10 mx.ef",
        6 => "ab.cd 60 IN SOA ns.ef h.ef ( 1 2 3 4 5 )",
        7 => "ab.cd 60 IN DS 12345 8 2 0aF1",
        _ => "ab.cd 60 IN TXT \"hi \\065\"",
    };
    let section = match SEC {
        1 => Section::Answer,
        2 => Section::NameServers,
        _ => Section::Additional,
    };
    let res = pp.insert_rr_from_string(section, text);
    vassert!(res.is_ok(), "insert_rr_from_string succeeds on valid text");
    let after = pp.packet().to_vec();
    let fresh = real_parse(&after);
    cut_errors(0);
    vassert!(fresh.is_ok(), "insert_rr_from_string: the parser accepts the resulting packet");
    vcover!(s, true, "end");
    Ok(())
}

/// stand-in for `backtrace::trace` under the model checker: chomp's error
/// type collects a backtrace in debug-profile builds through a foreign call
/// (`_Unwind_Backtrace`) that CBMC cannot execute. No frames are reported.
pub fn trace_stub(_cb: &mut dyn FnMut(&dyn backtrace::Frame) -> bool) {}

/// builders with a name whose first label has exactly LEN letters (owner when WHERE == 0,
/// NS target when WHERE == 1): whatever is returned is a well-formed record (labels <= 63),
/// and equals the RFC 1035 wire form; a label the wire format cannot carry is an error.
pub fn label_edge<S: Src, const LEN: usize, const WHERE: u8>(s: &mut S) -> Verdict {
    let ttl = s.u32();
    // no reallocation while the texts are built (see p_text::from_str_boundary)
    let mut long: Vec<u8> = Vec::with_capacity(300);
    let mut i = 0;
    while i < LEN {
        long.push(b'k');
        i += 1;
    }
    long.extend_from_slice(b".cd");
    let short: &[u8] = b"ab.cd";
    cut_errors(0);
    let a = [s.u8(), s.u8(), s.u8(), s.u8()];
    let got = if WHERE == 0 {
        r#gen::A::build(hdr(&long, ttl, Type::A), Ipv4Addr::new(a[0], a[1], a[2], a[3]))
    } else {
        r#gen::NS::build(hdr(short, ttl, Type::NS), long.clone())
    };
    match got {
        Ok(rr) => {
            vassert!(LEN <= 63, "builder: a label longer than 63 bytes is an error, never a record");
            let w = &rr.packet;
            let nlen = LEN + 5; // len byte + label + 2 'c' 'd' 0
            let fixed = if WHERE == 0 { nlen } else { 7 };
            vassert!(w.len() == if WHERE == 0 { nlen + 10 + 4 } else { 7 + 10 + nlen }, "builder: exactly the RFC 1035 wire form of the record");
            let base = if WHERE == 0 { 0 } else { 17 };
            let mut ok = w[base] as usize == LEN;
            let mut k = 0;
            while k < LEN {
                ok &= w[base + 1 + k] == b'k';
                k += 1;
            }
            ok &= w[base + LEN + 1] == 2 && w[base + LEN + 2] == b'c' && w[base + LEN + 3] == b'd' && w[base + LEN + 4] == 0;
            vassert!(ok, "builder: exactly the RFC 1035 wire form of the record");
            let ty = if WHERE == 0 { 1 } else { 2 };
            let rdlen = if WHERE == 0 { 4 } else { nlen };
            vassert!(w[fixed] == 0 && w[fixed + 1] == ty && w[fixed + 2] == 0 && w[fixed + 3] == 1
                && w[fixed + 4] == (ttl >> 24) as u8 && w[fixed + 5] == (ttl >> 16) as u8 && w[fixed + 6] == (ttl >> 8) as u8 && w[fixed + 7] == ttl as u8
                && w[fixed + 8] as usize == rdlen >> 8 && w[fixed + 9] as usize == rdlen & 0xff, "builder: exactly the RFC 1035 wire form of the record");
            if WHERE == 0 {
                vassert!(slices_eq(&w[fixed + 10..], &a), "builder: exactly the RFC 1035 wire form of the record");
            }
        }
        Err(_) => vassert!(LEN > 62, "builder succeeds on valid fields"),
    }
    vcover!(s, true, "end");
    Ok(())
}
