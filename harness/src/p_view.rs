//! C08 — the comparison "the object's own view of its bytes equals a fresh
//! parse of those bytes", shared by the mutation harnesses.
use crate::spec;
use crate::src::*;
use crate::util::*;
use dnssector::*;

/// Compares every field of `pp`'s view with `fresh` (= parse(pp.packet())),
/// including the cached question (through question_raw0 of both).
pub fn same_view(pp: &mut ParsedPacket, mut fresh: ParsedPacket) -> bool {
    let mut ok = true;
    ok &= pp.offset_question == fresh.offset_question;
    ok &= pp.offset_answers == fresh.offset_answers;
    ok &= pp.offset_nameservers == fresh.offset_nameservers;
    ok &= pp.offset_additional == fresh.offset_additional;
    ok &= pp.offset_edns == fresh.offset_edns;
    ok &= pp.edns_count == fresh.edns_count;
    ok &= pp.ext_rcode == fresh.ext_rcode;
    ok &= pp.edns_version == fresh.edns_version;
    ok &= pp.ext_flags == fresh.ext_flags;
    ok &= pp.max_payload == fresh.max_payload;
    let a = pp.question_raw0().map(|(n, t, c)| (n.to_vec(), t, c));
    let b = fresh.question_raw0().map(|(n, t, c)| (n.to_vec(), t, c));
    match (a, b) {
        (None, None) => {}
        (Some((n1, t1, c1)), Some((n2, t2, c2))) => {
            ok &= t1 == t2 && c1 == c2 && slices_eq(&n1, &n2);
        }
        _ => ok = false,
    }
    ok
}

/// Individual roles, for precise failure reports.
pub fn view_roles(pp: &mut ParsedPacket, fresh: &mut ParsedPacket) -> Verdict {
    vassert!(pp.offset_question == fresh.offset_question, "view: offset_question equals a fresh parse");
    vassert!(pp.offset_answers == fresh.offset_answers, "view: offset_answers equals a fresh parse");
    vassert!(pp.offset_nameservers == fresh.offset_nameservers, "view: offset_nameservers equals a fresh parse");
    vassert!(pp.offset_additional == fresh.offset_additional, "view: offset_additional equals a fresh parse");
    vassert!(pp.offset_edns == fresh.offset_edns, "view: offset_edns equals a fresh parse");
    vassert!(pp.edns_count == fresh.edns_count, "view: edns_count equals a fresh parse");
    vassert!(pp.ext_rcode == fresh.ext_rcode, "view: ext_rcode equals a fresh parse");
    vassert!(pp.edns_version == fresh.edns_version, "view: edns_version equals a fresh parse");
    vassert!(pp.ext_flags == fresh.ext_flags, "view: ext_flags equals a fresh parse");
    vassert!(pp.max_payload == fresh.max_payload, "view: max_payload equals a fresh parse");
    let a = pp.question_raw0().map(|(n, t, c)| (n.to_vec(), t, c));
    let b = fresh.question_raw0().map(|(n, t, c)| (n.to_vec(), t, c));
    match (a, b) {
        (None, None) => {}
        (Some((n1, t1, c1)), Some((n2, t2, c2))) => {
            vassert!(t1 == t2 && c1 == c2 && slices_eq(&n1, &n2), "view: the cached question equals the question of a fresh parse");
        }
        _ => vassert!(false, "view: question presence equals a fresh parse"),
    }
    Ok(())
}
