"""Metadata of the proof harnesses: which properties each one serves, tier, caps, bound."""

GLOBAL_ASSUMPTIONS = [
    "error values are an opaque carrier of DSError under the model checker (feature verif + cfg(kani)); anyhow/backtrace construction is not encoded",
    "memory safety of safe Rust and of std/alloc/byteorder is trusted; 'reads outside the buffer' is decided as 'no bounds-check panic, no failed pointer check'",
    "Kani models the dev profile (overflow checks on); counterexamples are replayed natively in dev and release",
]

OUTSIDE = {}
ROTATE_K = {}
MIN_DECIDED = {}
JOBS = {}

H = {}


def add(name, props, tier="quick", timeout=600, est=10, **kw):
    H[name] = dict(props=props, tier=tier, timeout=timeout, est=est, **kw)


# ---------------------------------------------------------------- C12
for n in ["set_flags", "set_opcode", "set_rcode", "set_response", "set_tid", "getters"]:
    add("c12_" + n, ["C12"], timeout=300, est=3, path="registry::h_c12::proofs::",
        funcs=["ParsedPacket::" + n if n != "getters" else "ParsedPacket::{tid,opcode,rcode,is_response,flags,dnssec}"],
        bound="all 2^96 12-byte headers x all argument values x ext_flags in {None, Some(any u16)}: the whole quantifier of the property",
        )
OUTSIDE["C12"] = "nothing within the statement: the header word, the id, the counts and every setter argument are fully symbolic"

# ---------------------------------------------------------------- names (C01, C02, C18)
add("names_cc_8", ["C01", "C02", "C18"], timeout=900, est=100, mem_gb=12, path="registry::h_names::proofs::",
    funcs=["Compress::check_compressed_name"],
    bound="every buffer of length <= 8 (all bytes symbolic, length symbolic) x every usize offset; unwind 10")
add("names_cu_12", ["C01", "C02", "C18"], timeout=600, est=20, path="registry::h_names::proofs::",
    funcs=["DNSSector::check_uncompressed_name"],
    bound="every buffer of length <= 12 x every usize offset; unwind 14")


# ---------------------------------------------------------------- C03 leaf readers
add("names_readers_5", ["C03"], tier="thorough", timeout=1800, est=1000, mem_gb=24, path="registry::h_c03_t::proofs::",
    funcs=["Compress::check_compressed_name", "RRIterator::skip_name", "Compress::copy_uncompressed_name", "Compress::raw_name_len_after_decompression", "Compress::raw_name_len", "Compress::raw_name_to_str"],
    bound="the trusted name readers on every name the validator accepts in every buffer of length <= 5 (all bytes, length, offset symbolic); unwind 8",
    assume=["names the validator rejects are not explored further (the readers are only ever called on validated names)"])
add("names_readers_6", ["C03"], tier="thorough", timeout=1800, est=2000, mem_gb=24, path="registry::h_c03_t::proofs::",
    funcs=["Compress::check_compressed_name", "RRIterator::skip_name", "Compress::copy_uncompressed_name", "Compress::raw_name_len_after_decompression", "Compress::raw_name_len", "Compress::raw_name_to_str"],
    bound="the trusted name readers on every name the validator accepts in every buffer of length <= 6 (all bytes, length, offset symbolic); unwind 9",
    assume=["names the validator rejects are not explored further (the readers are only ever called on validated names)"])
add("names_readers_8", ["C03"], tier="thorough", timeout=1800, est=2000, mem_gb=32, path="registry::h_c03_t::proofs::",
    funcs=["Compress::check_compressed_name", "RRIterator::skip_name", "Compress::copy_uncompressed_name", "Compress::raw_name_len_after_decompression", "Compress::raw_name_len", "Compress::raw_name_to_str"],
    bound="the trusted name readers on every name the validator accepts in every buffer of length <= 8; unwind 11",
    assume=["names the validator rejects are not explored further"])

# ---------------------------------------------------------------- C10 size limit
for n, sec in (("8178", "ar"), ("8179", "ar"), ("8192", "an"), ("8193", "ns"), ("9000", "ar"), ("12", "an")):
    add("ins_size_%s_%s" % (n, sec), ["C10"], tier="quick", timeout=900, est=60, path="registry::h_c10::proofs::",
        funcs=["ParsedPacket::insert_rr", "ParsedPacket::insertion_offset", "ParsedPacket::rrcount_inc", "synth::gen::RR::new"],
        bound="insert_rr of a 14-byte record (symbolic TTL and data byte) into a directly constructed pointer-free object whose packet is %s bytes long, section %s: Ok <=> %s + 14 <= 8192, otherwise PacketTooLarge and nothing changes" % (n, sec, n))

# ---------------------------------------------------------------- C15
_f15 = ["c_abi::fn_table", "c_abi::{flags,set_flags,rcode,set_rcode,opcode,set_opcode}", "c_abi::{iter_answer,iter_nameservers,iter_additional}", "c_abi::{name,rr_type,rr_class,rr_ttl,set_rr_ttl,rr_ip,set_rr_ip}",
        "c_abi::{raw_name_from_str,set_raw_name,set_name,delete}", "c_abi::{raw_packet,question,rename_with_raw_names}"]
_a15 = ["c_abi::throw_err is replaced by a stub returning -1 (its thread_local! slot crashes kani-compiler 0.68): the content and storage of error descriptions are outside the solver's claim",
        "Kani's pointer checks stay on: a write outside the caller's exact-size buffers is a failed check"]
for n, what in (("cabi_read_an", "header accessors/setters with any arguments and a read-only walk of the answer section through the section callback (name, rr_type, rr_class, rr_ttl, rr_ip) vs the native API on a twin; skeleton r_a_aaaa"),
                ("cabi_read_ar_opt", "same on the additional section of skeleton r_optmid (OPT in the middle is skipped)"),
                ("cabi_read_ar_optfirst", "same on the additional section of skeleton r_optfirst (OPT first is skipped)"),
                ("cabi_write_ttl_ip_0", "set_rr_ttl(any) + set_rr_ip(any) on answer 0 (A) inside the callback vs native"),
                ("cabi_write_ttl_ip_1", "set_rr_ttl(any) + set_rr_ip(any) on answer 1 (AAAA) inside the callback vs native"),
                ("cabi_set_raw_name", "set_raw_name(valid raw name) on answer 0 inside the callback vs native"),
                ("cabi_set_raw_name_bad", "set_raw_name(truncated raw name): -1, packet as after the native failure"),
                ("cabi_set_name", "set_name('Ok.Net') on answer 1 inside the callback vs raw_name_from_str + set_raw_name natively"),
                ("cabi_delete", "delete on answer 0 inside the callback vs native"),
                ("cabi_copyout", "raw_packet with any capacity up to len+2 (copy iff it fits, nothing written otherwise), question(), raw_name_from_str (good and bad text)"),
                ("cabi_rename", "rename_with_raw_names through the table vs native on skeleton r_nocomp_soa")):
    add(n, ["C15"], tier="quick", timeout=1800, est=400, mem_gb=32, fs=300, path="registry::h_c15::proofs::", funcs=_f15, assume=_a15,
        bound=what + "; label characters concrete, all other payload and arguments symbolic")
OUTSIDE["C15"] = "hook scripts beyond the listed ones; add_to_* (C string + chomp parser: not encoded; the native operation insert_rr_from_string is covered under C13); iter_edns; error_description/CErr (stubbed); the order/count/signature clause of the C header (no C front end is linked into the goto binary: not claimed)"

# ---------------------------------------------------------------- C17
for n, what in (("pure_parse", "parse(x); parse(y); parse(x): bytes and view identical (x = r_mx_soa, y = r_cname_chain)"), ("pure_uncompress", "uncompress(x); uncompress(y); uncompress(x)"),
                ("pure_compress", "compress(x); compress(y); compress(x) (pointer-free skeletons, concrete labels)"), ("pure_rename", "Renamer::rename_with_raw_names on x, y, x"),
                ("pure_synth", "RR::from_string(t1); from_string(t2); from_string(t1) with one symbolic digit")):
    add(n, ["C17"], tier="quick", timeout=1800, est=400, mem_gb=32, fs=300, path="registry::h_c17::proofs::",
        funcs=["DNSSector::parse", "Compress::uncompress", "Compress::compress", "Renamer::rename_with_raw_names", "synth::gen::RR::from_string"],
        bound=what + "; all payload symbolic", assume=["library errors are failed checks (every call must succeed)"])
add("pure_build_case", ["C17"], tier="quick", timeout=900, est=60, mem_gb=24, fs=300, path="registry::h_c17::proofs::",
    funcs=["synth::gen::RR::new", "synth::gen::copy_raw_name_from_str", "synth::gen::A::build", "synth::gen::NS::build"],
    bound="A::build(x); A::build(x'); A::build(x); NS::build(x); NS::build(x') where x' differs from x only in the ASCII case of name letters; all TTLs and addresses: each result is the wire form of its own arguments and the x results are identical",
    assume=["library errors are failed checks (every call must succeed)"])
OUTSIDE["C17"] = "concurrent schedules (Kani executes sequentially: the 'concurrently on other threads' half is not claimed); sequences longer than x,y,x; inputs outside the listed skeleton pairs; ParsedPacket::empty() (its rand-based id is the permitted randomness)"

# ---------------------------------------------------------------- C13
_f13 = ["synth::gen::RR::new", "synth::gen::copy_raw_name_from_str", "synth::gen::{A,AAAA,NS,CNAME,PTR,MX,SOA,DS,TXT}::build"]
_f13p = ["synth::gen::RR::from_string", "synth::parser::rr_parser", "synth::parser::rr_common_parser", "synth::parser::hostname_parser", "synth::parser::decimal_u8/u16/u32",
         "synth::parser::quoted_and_escaped_string", "synth::parser::hexstring_parser", "chomp combinators"] + _f13
for w in ("a", "aaaa", "ns", "cname", "ptr", "mx", "soa", "ds", "txt"):
    add("synth_build_" + w, ["C13"], tier="quick", timeout=600, est=30, path="registry::h_c13::proofs::", funcs=_f13,
        bound="%s::build with every value of its numeric fields (TTL, address, preference, counters, key tag, digest bytes) and concrete names: result == RFC 1035 wire form" % w.upper())
for n, what in (("64_owner", "owner name whose first label has 64 letters: error, never a record"), ("64_ns", "NS target whose first label has 64 letters: error, never a record"),
                ("62_owner", "owner name whose first label has 62 letters: accepted, wire form == RFC 1035")):
    add("synth_label_" + n, ["C13"], tier="quick", timeout=600, est=40, fs=400, path="registry::h_c13::proofs::", funcs=_f13,
        bound="builder with a concrete boundary-length label (%s); every TTL and address" % what)
for n, what in (("bad_ds_odd", "DS digest with an odd number of hex digits"), ("bad_ds_nonhex", "non-hex DS digest"), ("bad_octet256", "IPv4 octet 256"), ("bad_ttl_2e32", "TTL 4294967296"),
                ("bad_pref_2e16", "MX preference 65536"), ("bad_txt_unbalanced", "unbalanced TXT quote"), ("bad_txt_escape300", "TXT escape \\\\300"), ("bad_surplus_field", "surplus trailing field"),
                ("bad_missing_field", "missing MX exchange"), ("bad_class_ch", "class CH"), ("bad_aaaa", "IPv4 text for AAAA"),
                ("ok_a_boundary", "TTL 0, lowercase keywords, octets 255/0"), ("ok_mx_boundary", "TTL 2^32-1, preference 65535, tabs and double spaces"), ("ok_txt_escapes", "TXT escapes \\\\255 \\\\000"),
                ("ok_ds", "DS key tag 65535, mixed-case hex"), ("ok_soa", "SOA with counter 2^32-1")):
    add("synth_ct_" + n, ["C13"], tier="quick", timeout=900, est=80, mem_gb=24, path="registry::h_c13::proofs::", funcs=_f13p,
        bound="RR::from_string on one concrete text (%s): %s" % (what, "must be an error, no panic" if n.startswith("bad") else "wire form == RFC 1035 encoding"))
for n in ("255", "256"):
    add("synth_txt_" + n, ["C13"], tier="quick", timeout=900, est=60, path="registry::h_c13::proofs::", funcs=_f13, fs=600,
        bound="TXT::build with %s bytes of text (two symbolic byte values): chunks of at most 255 bytes" % n)
_tpl = {"ttl_digit": "last TTL digit any ASCII byte", "ttl_edge": "TTL 429496729X: accepted iff X <= '5' (2^32 edge)", "octet_edge": "IPv4 octet 25X: accepted iff X <= '5'",
        "separator": "byte between TTL and class: accepted iff space or tab", "keyword_case": "second letter of IN: accepted iff N or n",
        "mx_pref_edge": "MX preference 6553X: accepted iff X <= '5'", "txt_char": "one TXT character: accepted iff printable ASCII other than backslash and quote",
        "txt_escape": "TXT escape \\25X: accepted iff X <= '5'", "ds_hex": "second hex digit of a DS digest: accepted iff hex digit (odd length otherwise)",
        "owner_char": "second character of the owner name", "soa_counter": "last SOA counter digit",
        "txt_escape_first": "TXT escape \\\\X55: accepted iff X <= '2'"}
_tpl["ns_lastchar"] = "last character of an NS target: accepted iff letter, digit, hyphen, space or tab"
for k, v in _tpl.items():
    _q = k in ("octet_edge",)
    add("synth_tpl_" + k, ["C13"], tier="quick" if _q else "thorough", timeout=1200 if _q else 3600, est=200 if _q else 3000, mem_gb=24 if _q else 48,
        path="registry::h_c13::proofs::" if _q else "registry::h_c13_t::proofs::", funcs=_f13p,
        bound="RR::from_string on a concrete record text with one symbolic byte X (all 128 ASCII values): " + v + "; accepted <=> in grammar, wire form == RFC 1035 encoding")
add("synth_arbitrary_3", ["C13"], tier="thorough", timeout=3600, est=3000, mem_gb=48, path="registry::h_c13_t::proofs::", funcs=_f13p,
    bound="RR::from_string on every ASCII string of length <= 3: no panic, error")
for n, what in (("a_an", "A into answer"), ("mx_ns", "MX into authority"), ("txt_ar", "TXT (with a decimal escape) into additional")):
    _q = n != "txt_ar"
    add("synth_insert_" + n, ["C13"], tier="quick" if _q else "thorough", timeout=1500 if _q else 3600, est=300, mem_gb=24 if _q else 48, fs=300, path="registry::h_c13::proofs::" if _q else "registry::h_c13_t::proofs::", funcs=_f13p + ["ParsedPacket::insert_rr_from_string", "ParsedPacket::insert_rr", "DNSSector::parse"],
        bound="insert_rr_from_string(valid concrete text: %s) on skeleton r_a_aaaa x all payload: the parser accepts the result" % what)
for n in ("4", "5"):
    add("synth_arbitrary_" + n, ["C13"], tier="thorough", timeout=3600, est=2000, mem_gb=32, path="registry::h_c13_t::proofs::", funcs=_f13p,
        bound="RR::from_string on every ASCII string of length <= %s: no panic, error" % n)
for n in ("0", "1", "510", "511"):
    add("synth_txt_" + n, ["C13"], tier="thorough", timeout=1800, est=100, fs=1100, path="registry::h_c13_t::proofs::", funcs=_f13,
        bound="TXT::build with %s bytes of text" % n)
for n, what in (("aaaa_an", "AAAA"), ("ns_ns", "NS"), ("cname_an", "CNAME"), ("ptr_ar", "PTR"), ("soa_ns", "SOA"), ("ds_an", "DS")):
    add("synth_insert_" + n, ["C13"], tier="thorough", timeout=3000, est=400, mem_gb=24, fs=300, path="registry::h_c13_t::proofs::", funcs=_f13p + ["ParsedPacket::insert_rr_from_string"],
        bound="insert_rr_from_string(valid concrete %s text) on skeleton r_a_aaaa x all payload: the parser accepts the result" % what)
OUTSIDE["C13"] = "MEASURED LIMIT: RR::from_string (chomp combinators) is tractable only when the symbolic byte is the last byte of the text or the text is concrete; templates with an inner symbolic byte, TXT bodies and arbitrary strings run in the thorough tier with 2 h caps and are reported as undecided when they exceed them (the builders, which produce the wire form, are decided for all field values); record texts with more than one symbolic byte; strings longer than 3 (quick) / 5 (thorough) arbitrary bytes; names and TXT bodies beyond the templates; 62-byte labels and maximal names in text form (the name limits are decided on raw_name_from_str under C14)"

# ---------------------------------------------------------------- C14
_f14 = ["synth::gen::raw_name_from_str", "synth::gen::copy_raw_name_from_str"]
_dots = ["a..", "..", ".a", "a..b", "a.b..", ".", "a.", "", "a.b.", "...", "a.b", "ab.."]
for i in range(12):
    add("text_dots%d" % i, ["C14"], tier="quick", timeout=600, est=15, path="registry::h_c14::proofs::", funcs=_f14,
        bound="raw_name_from_str on the concrete text %r (dot handling: empty labels in every position), no zone" % _dots[i])
for i in (0, 4, 6, 10):
    add("text_dots%d_zone" % i, ["C14"], tier="quick", timeout=600, est=15, path="registry::h_c14::proofs::", funcs=_f14,
        bound="raw_name_from_str on the concrete text %r with zone" % _dots[i])
add("text_l1", ["C14"], tier="quick", timeout=900, est=30, path="registry::h_c14::proofs::", funcs=_f14,
    bound="raw_name_from_str on every 1-byte string")
_pre = ["", "a", "a.", "a.b", ".", "ab", "a.b.", "a-", "_x.y", "1.2"]
for i in range(10):
    _q = i in (0, 2, 4, 6)
    add("text_ls%d" % i, ["C14"], tier="quick" if _q else "thorough", timeout=900 if _q else 3600, est=60, mem_gb=24 if _q else 48, path="registry::h_c14::proofs::" if _q else "registry::h_c14_t::proofs::", funcs=_f14,
        bound="raw_name_from_str on the concrete prefix %r followed by one symbolic byte (all 256 values), no zone" % _pre[i])
for i in (2, 6):
    add("text_ls%d_zone" % i, ["C14"], tier="quick", timeout=900, est=60, mem_gb=24, path="registry::h_c14::proofs::", funcs=_f14,
        bound="raw_name_from_str on the concrete prefix %r followed by one symbolic byte (all 256 values), zone \\x02zn\\x00" % _pre[i])
for n in ("text_l2", "text_l3"):
    add(n, ["C14"], tier="thorough", timeout=5400, est=900, mem_gb=48, path="registry::h_c14_t::proofs::", funcs=_f14,
        bound="raw_name_from_str on every byte string of length exactly %s (measured: out of memory at 40 GB; kept to report the limit)" % n[-1])
for n in ("text_b_61_100", "text_b_62_100", "text_b_63_100", "text_b_64_100", "text_b_10_252", "text_b_10_253", "text_b_10_254", "text_b_10_255", "text_b_10_256"):
    add(n, ["C14"], tier="quick", timeout=900, est=60, fs=400, path="registry::h_c14::proofs::", funcs=_f14,
        bound="boundary lengths (concrete text): first label of %s bytes, total wire length %s" % tuple(n.split("_")[2:4]))
for n in ("text_readback_zone", "text_readback_dot"):
    add(n, ["C14"], tier="quick", timeout=900, est=200, path="registry::h_c14::proofs::", funcs=_f14 + ["TypedIterable::set_raw_name", "TypedIterable::name"], fs=300,
        bound="set_raw_name(raw_name_from_str('Ab.cD' %s)) on answer 0 of skeleton r_a_aaaa then name(): all payload symbolic, text concrete" % ("+ zone" if "zone" in n else "with trailing dot"))
for n, est in (("text_4_nozone", 400), ("text_4_zone", 400), ("text_5_nozone", 600), ("text_6_nozone", 900), ("text_6_zone", 1000), ("text_7_nozone", 2500)):
    add(n, ["C14"], tier="thorough", timeout=5400, est=est, mem_gb=48, path="registry::h_c14_t::proofs::", funcs=_f14,
        bound="raw_name_from_str on every byte string of length <= %s, %s" % (n.split("_")[1], "zone" if "_zone" in n else "no zone"))
for n in ("text_b_10_250", "text_b_10_251", "text_b_62_253", "text_b_63_255"):
    add(n, ["C14"], tier="thorough", timeout=900, est=60, fs=400, path="registry::h_c14_t::proofs::", funcs=_f14,
        bound="boundary lengths: first label of %s bytes, total wire length %s" % tuple(n.split("_")[2:4]))
OUTSIDE["C14"] = "MEASURED LIMIT: more than one symbolic byte in the text makes the slice copies of copy_raw_name_from_str symbolic-sized (2 symbolic bytes: 32 M SAT variables, out of memory); decided are: every 1-byte text, ten concrete prefixes x every last byte (with and without zone), concrete boundary lengths. texts longer than 4 (quick) / 6 (thorough) bytes with arbitrary content (symbolic-length variants text_N_* are thorough-only and may be undecided); boundary texts beyond the listed label/total lengths; read-back with symbolic text (raw_name_to_str branches per byte); zones other than the fixed one"

# ---------------------------------------------------------------- generated skeleton families
import json as _json, os as _os
_gen = _os.path.join(_os.path.dirname(_os.path.abspath(__file__)), "harness_gen.json")
if _os.path.exists(_gen):
    for _n, _m in _json.load(open(_gen)).items():
        H[_n] = _m


OUTSIDE.update({
 "C01": "byte strings longer than the leaf bounds (8 bytes for the compressed-name walker, 12 for the pointer-free one) that are not instances of a skeleton; packets beyond ~300 bytes (in particular the >= 65535 regime); more than one structural damage at a time; stack depth (no recursion in the crate, by inspection)",
 "C02": "same as C01; label characters are concrete in whole-packet harnesses (the character policy is decided on all bytes by the leaf harness names_cc_8 and by the single-symbolic-byte skeletons)",
 "C03": "packets outside the accepted skeleton family (<= 10 records, <= 6 options); label characters concrete in whole-packet walks (symbolic in the leaf harness up to 6/8-byte buffers); maximal names only in the thorough tier",
 "C04": "packets outside the skeleton family; label characters concrete in the question harnesses",
 "C05": "packets outside the accepted skeleton family; boundaries of records other than those listed per tier",
 "C06": "label characters concrete (the suffix dictionary branches on every comparison); more than 32 distinct suffixes, nesting deeper than 16, suffixes longer than 127 bytes, names beyond offset 16383: not encoded",
 "C07": "source/target pairs other than the generated cases; label characters concrete; names longer than the skeletons' except the 255-byte companions (thorough)",
 "C08": "operation sequences longer than the listed programs (mostly single operations, plus delete walks); starting packets outside the skeleton family; ParsedPacket::empty()-based synthesis",
 "C09": "same as C08",
 "C10": "failing operations other than those listed; 65535-record counts",
 "C11": "sections of more than 3 records; the question section walk (a question-less packet is not accepted by the parser)",
 "C18": "inputs outside the C01 bounds; the linear budget is checked per harness (steps <= 40*len + 300, per name walk steps <= labels + pointers)",
})
ROTATE_K.update({"C01": 6, "C02": 6, "C18": 4, "C03": 4, "C04": 3, "C05": 3, "C06": 1, "C07": 2, "C08": 2, "C09": 2, "C10": 1, "C11": 2})
MIN_DECIDED.update({p: 2 for p in ["C01", "C02", "C03", "C04", "C05", "C06", "C07", "C08", "C09", "C10", "C11", "C12", "C13", "C14", "C15", "C17", "C18"]})
JOBS.update({})
