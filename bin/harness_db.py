"""Metadata of the proof harnesses: which properties each one serves, tier, caps, bound."""

GLOBAL_ASSUMPTIONS = [
    "error values are an opaque carrier of DSError under the model checker (feature verif + cfg(kani)); anyhow/backtrace construction is not encoded",
    "memory safety of safe Rust and of std/alloc/byteorder is trusted; 'reads outside the buffer' is decided as 'no bounds-check panic, no failed pointer check'",
    "Kani models the dev profile (overflow checks on); counterexamples are replayed natively in dev and release",
]

OUTSIDE = {}
ROTATE_K = {}
MIN_DECIDED = {}
JOBS = {"C06": 8, "C07": 8}

H = {}


def add(name, props, tier="quick", timeout=600, est=10, **kw):
    H[name] = dict(props=props, tier=tier, timeout=timeout, est=est, **kw)


# ---------------------------------------------------------------- C12
for n in ["set_flags", "set_opcode", "set_rcode", "set_response", "set_tid", "getters"]:
    add("c12_" + n, ["C12"], timeout=300, est=3, path="registry::h_c12::proofs::",
        funcs=["ParsedPacket::" + n if n != "getters" else "ParsedPacket::{tid,opcode,rcode,is_response,flags,dnssec}"],
        bound="all 2^96 12-byte headers x all argument values x ext_flags in {None, Some(any u16)}: the whole quantifier of the property",
        )
OUTSIDE["C12"] = "nothing within the statement: the header word, the id, the counts and every setter argument are fully symbolic"

# ---------------------------------------------------------------- names (C01, C02, C18)
add("names_cc_8", ["C01", "C02", "C18"], timeout=900, est=100, mem_gb=12, path="registry::h_names::proofs::",
    funcs=["Compress::check_compressed_name"],
    bound="every buffer of length <= 8 (all bytes symbolic, length symbolic) x every usize offset; unwind 10")
add("names_cu_12", ["C01", "C02", "C18"], timeout=600, est=20, path="registry::h_names::proofs::",
    funcs=["DNSSector::check_uncompressed_name"],
    bound="every buffer of length <= 12 x every usize offset; unwind 14")


# ---------------------------------------------------------------- generated skeleton families
import json as _json, os as _os
_gen = _os.path.join(_os.path.dirname(_os.path.abspath(__file__)), "harness_gen.json")
if _os.path.exists(_gen):
    for _n, _m in _json.load(open(_gen)).items():
        H[_n] = _m
