#!/usr/bin/env python3
"""
Deterministic generator of packet *skeletons* (DESIGN.md section 4, shape S).

A skeleton fixes a packet's length and structural bytes (counts, QR, label lengths,
pointers, types, rdlens, option lengths); every other byte is a symbolic cell drawn
from the input source inside the proof harness. For each skeleton this script knows,
by construction, whether the packet is well-formed and where every record lies; that
knowledge is emitted next to the builder so harnesses can use it as an oracle that is
independent of both the library and harness/src/spec.rs.

Output: harness/src/skel_gen.rs, harness/src/registry_gen.rs, bin/harness_gen.json
"""
import json, os, sys, copy

VERIF = os.path.dirname(os.path.dirname(os.path.abspath(__file__)))

T_A, T_NS, T_CNAME, T_SOA, T_PTR, T_MX, T_TXT, T_AAAA, T_DNAME, T_OPT, T_DS = 1, 2, 5, 6, 12, 15, 16, 28, 39, 41, 43
T_PRIV = 65280


class Pk:
    """Packet builder. Cells: ('c', v) concrete | ('any',) | ('lab',) label char allowed by the parser
    | ('alpha',) ASCII letter of either case | ('mask', m, v) byte whose bits in m are fixed to v."""

    def __init__(self, name, qr=1, desc=""):
        self.name = name
        self.desc = desc
        self.cells = []
        self.recs = []  # dict(start,name_end,rtype,rdlen,next,section)
        self.counts = [0, 0, 0, 0]
        self.accept = True
        self.tags = set()
        self.opt = None  # (edns_start, edns_end, [(ostart, onext)])
        self.labels = {}  # key -> offset (for pointers)
        # header
        self.any(2)
        self.cells.append(('mask', 0x80, 0x80 if qr else 0))
        self.any(1)
        for _ in range(8):
            self.c(0)  # counts, patched in finish()
        self.qr = qr

    # -- cells
    def pos(self):
        return len(self.cells)

    def c(self, *bs):
        for b in bs:
            self.cells.append(('c', b & 0xff))

    def any(self, n=1):
        for _ in range(n):
            self.cells.append(('any',))

    def lab(self, n=1):
        for _ in range(n):
            self.cells.append(('lab',))

    def alpha(self, n=1):
        for _ in range(n):
            self.cells.append(('alpha',))

    def u16(self, v):
        self.c(v >> 8, v & 0xff)

    def setc(self, off, v):
        self.cells[off] = ('c', v & 0xff)

    def set16(self, off, v):
        self.setc(off, v >> 8)
        self.setc(off + 1, v)

    # -- names.  spec: list of items: int n>0 = label of n symbolic label chars; bytes = literal label;
    #    ('x', n) = label of n ANY bytes (DNAME); ('a', n) = label of n symbolic letters;
    #    0 = root (end); ('ptr', off) = pointer (end); ('key', k) marks the offset of the next label under key k
    def wname(self, spec):
        for it in spec:
            if isinstance(it, tuple) and it[0] == 'key':
                self.labels[it[1]] = self.pos()
            elif isinstance(it, tuple) and it[0] == 'ptr':
                off = it[1]
                if isinstance(off, str):
                    off = self.labels[off]
                self.c(0xc0 | (off >> 8), off & 0xff)
                return
            elif isinstance(it, tuple) and it[0] == 'x':
                self.c(it[1])
                self.any(it[1])
            elif isinstance(it, tuple) and it[0] == 'a':
                self.c(it[1])
                self.alpha(it[1])
            elif isinstance(it, (bytes, bytearray)):
                self.c(len(it))
                self.c(*it)
            elif it == 0:
                self.c(0)
                return
            else:
                self.c(it)
                self.lab(it)
        # no terminator: deliberately unterminated (hostile)

    def question(self, nm, qtype=None, qclass=1):
        start = self.pos()
        self.wname(nm)
        ne = self.pos()
        if qtype is None:
            self.any(2)
        else:
            self.u16(qtype)
        self.u16(qclass)
        self.recs.append(dict(start=start, name_end=ne, rtype=qtype if qtype is not None else -1, rdlen=0, next=self.pos(), section=0))
        self.counts[0] += 1

    def rr(self, section, nm, rtype, rdata, cls=None, ttl=None):
        """rdata: function(pk) writing the data, or list of name specs / ints"""
        start = self.pos()
        self.wname(nm)
        ne = self.pos()
        self.u16(rtype)
        if cls is None:
            self.any(2)
        else:
            self.u16(cls)
        if ttl is None:
            self.any(4)
        else:
            self.c(ttl >> 24, ttl >> 16, ttl >> 8, ttl)
        rdl = self.pos()
        self.u16(0)
        rd = self.pos()
        rdata(self)
        rdlen = self.pos() - rd
        self.set16(rdl, rdlen)
        self.recs.append(dict(start=start, name_end=ne, rtype=rtype, rdlen=rdlen, next=self.pos(), section=section))
        self.counts[section] += 1
        return len(self.recs) - 1

    def add_opt(self, options=(), payload=None):
        """OPT pseudo-record in the additional section; options: list of data lengths"""
        start = self.pos()
        self.c(0)
        ne = self.pos()
        self.u16(T_OPT)
        self.any(2)  # payload size
        self.any(1)  # ext rcode
        self.any(1)  # version
        self.any(2)  # ext flags
        rdl = self.pos()
        self.u16(0)
        rd = self.pos()
        opts = []
        for ol in options:
            o = self.pos()
            self.any(2)
            self.u16(ol)
            self.any(ol)
            opts.append((o, self.pos()))
        rdlen = self.pos() - rd
        self.set16(rdl, rdlen)
        self.recs.append(dict(start=start, name_end=ne, rtype=T_OPT, rdlen=rdlen, next=self.pos(), section=3))
        self.counts[3] += 1
        self.opt = (rd, self.pos(), opts)
        self.tags.add('opt')
        return len(self.recs) - 1

    def finish(self):
        for i in range(4):
            self.set16(4 + 2 * i, self.counts[i])
        return self

    def clone(self, name, desc):
        q = copy.deepcopy(self)
        q.name = name
        q.desc = desc
        return q


# rdata writers
def rd_a(pk):
    pk.any(4)


def rd_aaaa(pk):
    pk.any(16)


def rd_name(nm):
    def f(pk):
        pk.wname(nm)
    return f


def rd_mx(nm):
    def f(pk):
        pk.any(2)
        pk.wname(nm)
    return f


def rd_soa(n1, n2):
    def f(pk):
        pk.wname(n1)
        pk.wname(n2)
        pk.any(20)
    return f


def rd_opaque(n):
    def f(pk):
        pk.any(n)
    return f


def rd_txt(chunks):
    def f(pk):
        for n in chunks:
            pk.c(n)
            pk.any(n)
    return f


SK = []  # all skeletons


def reg(pk, *tags):
    pk.finish()
    pk.tags |= set(tags)
    SK.append(pk)
    return pk


Q = [('key', 'q0'), 3, ('key', 'q1'), 2, ('key', 'q2'), 2, 0]  # www.ex.co style: 3+2+2 symbolic chars


def build_valid():
    # ---- queries
    p = Pk("q_plain", qr=0, desc="query, 3-label question, no records")
    p.question(Q)
    reg(p, 'valid', 'query', 'small')

    p = Pk("q_root", qr=0, desc="query for the root name")
    p.question([0])
    reg(p, 'valid', 'query', 'small', 'rootq')

    p = Pk("q_opt0", qr=0, desc="query with an option-less OPT")
    p.question(Q)
    p.add_opt()
    reg(p, 'valid', 'query', 'small')

    p = Pk("q_opt2", qr=0, desc="query with an OPT carrying two options (0 and 3 data bytes)")
    p.question(Q)
    p.add_opt([0, 3])
    reg(p, 'valid', 'query', 'small')

    # question name written through a pointer into the header: header bytes concrete
    p = Pk("q_hdrptr", qr=0, desc="query whose question name is a pointer to offset 0: the header bytes read as labels")
    p.cells[0] = ('c', 1)
    p.cells[1] = ('lab',)
    p.cells[2] = ('c', 1)      # flags hi: RD -> label length 1
    p.cells[3] = ('c', 0x20)   # flags lo: AD -> ' '
    p.question([('ptr', 0)])
    reg(p, 'valid', 'query', 'small', 'hdrptr')

    # ---- responses
    p = Pk("r_a_aaaa", desc="response: A with owner = pointer to the question, AAAA with literal owner")
    p.question(Q)
    p.rr(1, [('ptr', 'q0')], T_A, rd_a)
    p.rr(1, [2, ('ptr', 'q1')], T_AAAA, rd_aaaa)
    reg(p, 'valid', 'small', 'ptr')

    p = Pk("r_cname_chain", desc="response: CNAME (rdata name literal label + pointer into the question), A owned by a pointer into that rdata name (chain of 2)")
    p.question(Q)
    p.rr(1, [('ptr', 'q0')], T_CNAME, rd_name([('key', 'c0'), 4, ('ptr', 'q1')]))
    p.rr(1, [('ptr', 'c0')], T_A, rd_a)
    reg(p, 'valid', 'small', 'ptr', 'chain')

    p = Pk("r_ns_add_optlast", desc="response: NS in authority (compressed rdata), A in additional, OPT last with one option")
    p.question(Q)
    p.rr(2, [('ptr', 'q1')], T_NS, rd_name([('key', 'n0'), 2, ('ptr', 'q1')]))
    p.rr(3, [('ptr', 'n0')], T_A, rd_a)
    p.add_opt([2])
    reg(p, 'valid', 'ptr', 'optlast')

    p = Pk("r_optfirst", desc="response: additional = OPT (no options) then A")
    p.question(Q)
    p.rr(1, [('ptr', 'q0')], T_A, rd_a)
    p.add_opt()
    p.rr(3, [1, ('ptr', 'q1')], T_A, rd_a)
    reg(p, 'valid', 'ptr', 'optfirst', 'optnotlast')

    p = Pk("r_optmid", desc="response: additional = A, OPT (one option), AAAA")
    p.question(Q)
    p.rr(3, [('ptr', 'q0')], T_A, rd_a)
    p.add_opt([1])
    p.rr(3, [('ptr', 'q1')], T_AAAA, rd_aaaa)
    reg(p, 'valid', 'ptr', 'optmid', 'optnotlast')

    p = Pk("r_mx_soa", desc="response: MX (compressed exchange), SOA in authority (mname literal+ptr, rname ptr)")
    p.question(Q)
    p.rr(1, [('ptr', 'q0')], T_MX, rd_mx([('key', 'm0'), 2, ('ptr', 'q1')]))
    p.rr(2, [('ptr', 'q1')], T_SOA, rd_soa([2, ('ptr', 'q1')], [('ptr', 'm0')]))
    reg(p, 'valid', 'ptr', 'mxsoa')

    p = Pk("r_dname_txt_priv", desc="response: DNAME (pointer-free target, any bytes), TXT (2 chunks), private type 65280 with 3 opaque bytes")
    p.question(Q)
    p.rr(1, [('ptr', 'q1')], T_DNAME, rd_name([('x', 2), ('x', 1), 0]))
    p.rr(1, [('ptr', 'q0')], T_TXT, rd_txt([2, 0]))
    p.rr(3, [0], T_PRIV, rd_opaque(3))
    reg(p, 'valid', 'ptr')

    p = Pk("r_ptr_ptr", desc="response: PTR record; owner is a pointer to a pointer (chain of 3 through rdata)")
    p.question(Q)
    p.rr(1, [('key', 'o0'), 1, ('ptr', 'q2')], T_PTR, rd_name([('key', 'p0'), ('ptr', 'o0')]))
    p.rr(1, [('ptr', 'p0')], T_A, rd_a)
    reg(p, 'valid', 'ptr', 'chain')

    p = Pk("r_nocomp", desc="pointer-free response: A, NS, A and OPT last; repeated suffixes with mixed-case duplicates")
    p.question([b"www", b"Ex", b"co", 0])
    p.rr(1, [b"WWW", b"ex", b"CO", 0], T_A, rd_a)
    p.rr(2, [b"ex", b"co", 0], T_NS, rd_name([b"ns", b"eX", b"cO", 0]))
    p.rr(3, [b"ns", b"ex", b"co", 0], T_A, rd_a)
    p.add_opt([1])
    reg(p, 'valid', 'nocomp')

    p = Pk("r_nocomp2", desc="pointer-free response: CNAME and MX, nested suffixes (a suffix first seen inside an already shortened name)")
    p.question([b"a", b"bb", b"cc", 0])
    p.rr(1, [b"a", b"bb", b"cc", 0], T_CNAME, rd_name([b"x", b"bb", b"cc", 0]))
    p.rr(1, [b"x", b"bb", b"cc", 0], T_MX, rd_mx([b"m", b"x", b"BB", b"cc", 0]))
    p.rr(3, [b"m", b"x", b"bb", b"cc", 0], T_A, rd_a)
    reg(p, 'valid', 'nocomp')

    p = Pk("r_nocomp_soa", desc="pointer-free response: SOA with two names in authority, A in additional")
    p.question([b"zz", b"yy", 0])
    p.rr(2, [b"zz", b"yy", 0], T_SOA, rd_soa([b"n", b"zz", b"yy", 0], [b"h", b"n", b"ZZ", b"yy", 0]))
    p.rr(3, [b"n", b"zz", b"yy", 0], T_A, rd_a)
    reg(p, 'valid', 'nocomp')

    p = Pk("r_nocomp_optfirst", desc="pointer-free response: OPT first in the additional section, then an A record")
    p.question([b"qq", b"rr", 0])
    p.rr(1, [b"qq", b"rr", 0], T_A, rd_a)
    p.add_opt([2])
    p.rr(3, [b"k", b"qq", b"rr", 0], T_A, rd_a)
    reg(p, 'valid', 'nocomp', 'optnotlast')

    p = Pk("r_nocomp_optmid", desc="pointer-free response: A, OPT, AAAA in the additional section")
    p.question([b"qq", b"rr", 0])
    p.rr(3, [b"qq", b"rr", 0], T_A, rd_a)
    p.add_opt()
    p.rr(3, [b"j", b"qq", b"rr", 0], T_AAAA, rd_aaaa)
    reg(p, 'valid', 'nocomp', 'optnotlast')

    p = Pk("r_nocomp_short", desc="pointer-free response: suffixes of 1 and 2 bytes must not be pointed to (root, one-letter TLD)")
    p.question([b"a", 0])
    p.rr(1, [b"a", 0], T_NS, rd_name([b"b", b"a", 0]))
    p.rr(1, [0], T_NS, rd_name([b"b", b"a", 0]))
    reg(p, 'valid', 'nocomp')

    p = Pk("r_nocomp_soa2", desc="pointer-free response: SOA whose mname gets shortened and whose rname introduces a new suffix that a later owner reuses")
    p.question([b"zz", b"yy", 0])
    p.rr(2, [b"zz", b"yy", 0], T_SOA, rd_soa([b"ns", b"zz", b"yy", 0], [b"adm", b"pp", b"qq", 0]))
    p.rr(3, [b"pp", b"qq", 0], T_A, rd_a)
    p.rr(3, [b"w", b"pp", b"qq", 0], T_AAAA, rd_aaaa)
    reg(p, 'valid', 'nocomp')

    p = Pk("r_nocomp_punct", desc="pointer-free response: names that differ only in bit 5 of a non-letter ('[' vs '{', '@' vs '`', '^' vs '~') must not be merged")
    p.question([b"a[b", b"cc", 0])
    p.rr(1, [b"a{b", b"cc", 0], T_CNAME, rd_name([b"x@", b"cc", 0]))
    p.rr(1, [b"x`", b"cc", 0], T_A, rd_a)
    p.rr(3, [b"^q", b"a[b", b"cc", 0], T_A, rd_a)
    p.rr(3, [b"~q", b"a[b", b"cc", 0], T_A, rd_a)
    reg(p, 'valid', 'nocomp')

    p = Pk("r_nocomp_dname", desc="pointer-free response: DNAME (never compressed), TXT, private type, PTR")
    p.question([b"dd", b"ee", 0])
    p.rr(1, [b"dd", b"ee", 0], T_DNAME, rd_name([b"dd", b"ee", 0]))
    p.rr(1, [b"t", b"dd", b"ee", 0], T_TXT, rd_txt([3]))
    p.rr(2, [b"dd", b"ee", 0], T_PTR, rd_name([b"p", b"dd", b"ee", 0]))
    p.rr(3, [b"dd", b"ee", 0], T_PRIV, rd_opaque(2))
    reg(p, 'valid', 'nocomp')

    p = Pk("r_three_a", desc="response: three A records in the answer section (first/middle/last targets), compressed owners")
    p.question(Q)
    p.rr(1, [('ptr', 'q0')], T_A, rd_a)
    p.rr(1, [1, ('ptr', 'q1')], T_A, rd_a)
    p.rr(1, [('ptr', 'q1')], T_AAAA, rd_aaaa)
    reg(p, 'valid', 'ptr', 'multi')

    p = Pk("r_all_sections", desc="response: one record in each of answer, authority, additional, plus OPT last")
    p.question(Q)
    p.rr(1, [('ptr', 'q0')], T_A, rd_a)
    p.rr(2, [('ptr', 'q1')], T_NS, rd_name([2, ('ptr', 'q1')]))
    p.rr(3, [2, ('ptr', 'q1')], T_AAAA, rd_aaaa)
    p.add_opt()
    reg(p, 'valid', 'ptr', 'multi', 'optlast')


def build_hostile():
    """single-clause damage of valid skeletons: each is NOT well-formed (accept = False)"""
    byname = {p.name: p for p in SK}

    def dmg(base, name, desc, fn, accept=False):
        p = byname[base].clone(name, desc)
        fn(p)
        p.accept = accept
        p.tags = {'hostile'} if not accept else {'valid', 'edge'}
        SK.append(p)
        return p

    base = byname['r_a_aaaa']
    # pointer games on the first answer's owner (2 bytes at rec1.start)
    o = base.recs[1]['start']
    dmg('r_a_aaaa', 'h_selfptr', 'owner pointer designates itself', lambda p: p.set16(o, 0xc000 | o))
    dmg('r_a_aaaa', 'h_fwdptr', 'owner pointer designates a later offset', lambda p: p.set16(o, 0xc000 | (o + 13)))
    dmg('r_a_aaaa', 'h_ptr_root', 'owner pointer designates the root label ending the question name',
        lambda p: p.set16(o, 0xc000 | (base.recs[0]['name_end'] - 1)))
    dmg('r_a_aaaa', 'h_ptr_oob', 'owner pointer designates an offset beyond the packet', lambda p: p.set16(o, 0xc000 | 0x3fff))
    dmg('r_a_aaaa', 'h_ptr_hdr_bad', 'owner pointer into the header where bytes are not a valid name (counts)', lambda p: p.set16(o, 0xc000 | 5))
    dmg('r_a_aaaa', 'h_label64', 'question label length byte 64', lambda p: p.setc(12, 64))
    dmg('r_a_aaaa', 'h_label_0x80', 'question label length byte 0x80 (reserved type)', lambda p: p.setc(12, 0x80))
    dmg('r_a_aaaa', 'h_trailing', 'one trailing byte after the last record', lambda p: p.c(0))
    dmg('r_a_aaaa', 'h_count_plus', 'ancount one too large', lambda p: p.set16(6, 3))
    dmg('r_a_aaaa', 'h_count_minus', 'ancount one too small (trailing record)', lambda p: p.set16(6, 1))
    dmg('r_a_aaaa', 'h_qd0', 'qdcount 0', lambda p: p.set16(4, 0))
    dmg('r_a_aaaa', 'h_qd2', 'qdcount 2', lambda p: p.set16(4, 2))
    dmg('r_a_aaaa', 'h_qclass_ch', 'question class CH', lambda p: p.set16(base.recs[0]['name_end'] + 2, 3))
    dmg('r_a_aaaa', 'h_query_with_answers', 'QR clear but ancount 2', lambda p: p.cells.__setitem__(2, ('mask', 0x80, 0)))
    ne1 = base.recs[1]['name_end']
    dmg('r_a_aaaa', 'h_a_rdlen5', 'A record announcing 5 data bytes (one more byte present)',
        lambda p: (p.set16(ne1 + 8, 5), p.cells.insert(ne1 + 10, ('any',))))
    dmg('r_a_aaaa', 'h_a_rdlen3', 'A record announcing 3 data bytes (one byte removed)',
        lambda p: (p.set16(ne1 + 8, 3), p.cells.pop(ne1 + 10)))
    ne2 = base.recs[2]['name_end']
    dmg('r_a_aaaa', 'h_aaaa_rdlen15', 'AAAA with 15 data bytes',
        lambda p: (p.set16(ne2 + 8, 15), p.cells.pop(ne2 + 10)))
    def a16(p):
        p.set16(ne1 + 8, 16)
        for _ in range(12):
            p.cells.insert(ne1 + 10, ('any',))
    dmg('r_a_aaaa', 'h_a_rdlen16', 'A record with 16 data bytes (the AAAA size)', a16)
    def aaaa4(p):
        p.set16(ne2 + 8, 4)
        del p.cells[ne2 + 10:ne2 + 22]
    dmg('r_a_aaaa', 'h_aaaa_rdlen4', 'AAAA record with 4 data bytes (the A size)', aaaa4)
    dmg('r_a_aaaa', 'h_trunc_last', 'last byte missing', lambda p: p.cells.pop())
    dmg('r_a_aaaa', 'h_trunc_rrhdr', 'packet ends inside the fixed part of the first answer', lambda p: p.cells.__delitem__(slice(ne1 + 7, None)))
    dmg('r_a_aaaa', 'h_trunc_name', 'packet ends inside the question name', lambda p: p.cells.__delitem__(slice(15, None)))
    dmg('r_a_aaaa', 'h_hdr_only', 'header only, qdcount 1', lambda p: p.cells.__delitem__(slice(12, None)))
    dmg('r_a_aaaa', 'h_ctrl_char', 'a control character (0x1f) in a question label', lambda p: p.setc(13, 0x1f))
    dmg('r_a_aaaa', 'h_dot_char', "a '.' in a question label", lambda p: p.setc(13, ord('.')))
    dmg('r_a_aaaa', 'h_bslash_char', "a '\\' in a question label", lambda p: p.setc(14, ord('\\')))
    dmg('r_a_aaaa', 'h_del_char', 'DEL (0x7f) in a question label', lambda p: p.setc(13, 0x7f))
    dmg('r_a_aaaa', 'h_opt_in_answer', 'first answer retyped OPT', lambda p: p.set16(ne1, T_OPT))

    # name-bearing rdata damage
    b = byname['r_cname_chain']
    r1 = b.recs[1]
    dmg('r_cname_chain', 'h_cname_rdlen_plus', 'CNAME rdlen one larger than its name (extra byte present)',
        lambda p: (p.set16(r1['name_end'] + 8, r1['rdlen'] + 1), p.cells.insert(r1['next'], ('any',))))
    dmg('r_cname_chain', 'h_cname_rdlen0', 'CNAME with rdlen 0 and no data',
        lambda p: (p.set16(r1['name_end'] + 8, 0), p.cells.__delitem__(slice(r1['name_end'] + 10, r1['next'])), p.set16(6, 1), p.cells.__delitem__(slice(r1['name_end'] + 10, None))))
    dmg('r_cname_chain', 'h_cycle2', 'two names pointing at each other (rdata name -> second owner -> rdata name)',
        lambda p: p.set16(r1['name_end'] + 10 + 5, 0xc000 | b.recs[2]['start']))

    b = byname['r_mx_soa']
    mx, soa = b.recs[1], b.recs[2]
    dmg('r_mx_soa', 'h_mx_rdlen2', 'MX rdlen 2: preference only',
        lambda p: (p.set16(mx['name_end'] + 8, 2), p.cells.__delitem__(slice(mx['name_end'] + 12, None)), p.set16(8, 0)))
    dmg('r_mx_soa', 'h_soa_short', 'SOA with 19 bytes after its names',
        lambda p: (p.set16(soa['name_end'] + 8, soa['rdlen'] - 1), p.cells.pop()))
    dmg('r_mx_soa', 'h_soa_long', 'SOA with 21 bytes after its names',
        lambda p: (p.set16(soa['name_end'] + 8, soa['rdlen'] + 1), p.c(0)))

    b = byname['r_dname_txt_priv']
    dn = b.recs[1]
    dmg('r_dname_txt_priv', 'h_dname_ptr', 'DNAME target containing a compression pointer',
        lambda p: (p.setc(dn['name_end'] + 10 + 3, 0xc0), p.setc(dn['name_end'] + 10 + 4, 12)))
    dmg('r_dname_txt_priv', 'v_dname_ctrl', 'DNAME target with control bytes is well-formed', lambda p: p.setc(dn['name_end'] + 10 + 1, 0x01), accept=True)

    # OPT damage
    b = byname['r_ns_add_optlast']
    optr = b.recs[3]
    dmg('r_ns_add_optlast', 'h_opt_overrun', 'option length overruns the OPT data by one',
        lambda p: p.set16(optr['name_end'] + 10 + 2, 3))
    dmg('r_ns_add_optlast', 'h_opt_underfill', 'OPT data has 3 bytes after its only option (not a whole option header)',
        lambda p: (p.set16(optr['name_end'] + 8, optr['rdlen'] + 3), p.any(3)))
    dmg('r_ns_add_optlast', 'h_opt_name', 'OPT owner is not the root (one-letter label)',
        lambda p: (p.cells.insert(optr['start'], ('c', 1)), p.cells.insert(optr['start'] + 1, ('lab',)), p.cells.insert(optr['start'] + 2, ('c', 0)), p.cells.pop(optr['start'] + 3)))
    # OPT data length overstated by k bytes (the data simply is not there)
    for base, tag in (('q_opt0', 'opt'), ('q_opt2', 'opt2')):
        ob = byname[base]
        orr = ob.recs[1]
        for k in ((1, 10, 11) if base == 'q_opt0' else (4,)):
            dmg(base, 'h_%s_rdlen_plus%d' % (tag, k), 'OPT RDLENGTH overstated by %d: the packet ends before the announced OPT data' % k,
                lambda p, orr=orr, k=k: p.set16(orr['name_end'] + 8, orr['rdlen'] + k))
    b2 = byname['r_optmid']
    last = b2.recs[3]
    def two_opts(p):
        # retype the trailing AAAA as a second OPT with a root owner: replace the last record entirely
        del p.cells[last['start']:]
        p.c(0); p.u16(T_OPT); p.any(6); p.u16(0)
    dmg('r_optmid', 'h_two_opts', 'two OPT records', two_opts)
    b3 = byname['r_all_sections']
    nsr = b3.recs[2]
    def opt_in_auth(p):
        # authority record replaced by an OPT-typed root-owned record
        tail = p.cells[nsr['next']:]
        del p.cells[nsr['start']:]
        p.c(0); p.u16(T_OPT); p.any(6); p.u16(0)
        p.cells.extend(tail)
        # drop the real OPT at the end to keep damage single: arcount stays 2 -> make it 1 and cut last 11 bytes
        del p.cells[-11:]
        p.set16(10, 1)
    dmg('r_all_sections', 'h_opt_in_authority', 'an OPT-typed record in the authority section', opt_in_auth)


def build_long():
    """boundary skeletons around the big limits (thorough tier)"""
    p = Pk("r_far_ptr", desc="response of more than 1 KiB: a 1000-byte TXT record, then a name at an offset above 1024 that a later owner points to (14-bit pointer)")
    p.question([('key', 'q0'), 1, 2, 0])
    p.rr(1, [('ptr', 'q0')], T_TXT, rd_txt([250, 250, 250, 246]))
    p.rr(1, [('key', 'far'), 2, 3, 0], T_A, rd_a)
    p.rr(1, [1, ('ptr', 'far')], T_AAAA, rd_aaaa)
    reg(p, 'valid', 'long', 'ptr', 'far')
    # 255-byte name: 63+63+63+61 -> 4 length bytes + 250 + root = 255
    p = Pk("r_name255", desc="response whose question name is exactly 255 bytes (63,63,63,61), answer owner points at it")
    p.question([('key', 'q0'), 63, 63, 63, 61, 0])
    p.rr(1, [('ptr', 'q0')], T_A, rd_a)
    reg(p, 'valid', 'long', 'ptr')
    p = Pk("h_name256", desc="question name of 256 bytes (63,63,63,62)")
    p.question([('key', 'q0'), 63, 63, 63, 62, 0])
    p.rr(1, [('ptr', 'q0')], T_A, rd_a)
    p.accept = False
    reg(p, 'hostile', 'long')
    p = Pk("r_name255_via_ptr", desc="answer owner = 1-char label + pointer to a 253-byte name: 255 in total")
    p.question([('key', 'q0'), 63, 63, 63, 59, 0])
    p.rr(1, [1, ('ptr', 'q0')], T_A, rd_a)
    reg(p, 'valid', 'long', 'ptr')
    p = Pk("h_name256_via_ptr", desc="answer owner = 2-char label + pointer to a 253-byte name: 256 in total")
    p.question([('key', 'q0'), 63, 63, 63, 59, 0])
    p.rr(1, [2, ('ptr', 'q0')], T_A, rd_a)
    p.accept = False
    reg(p, 'hostile', 'long')
    # pointer chains of 16 / 17 laid out in an opaque TXT rdata
    for n, ok in ((16, True), (17, False)):
        p = Pk("%s_chain%d" % ('r' if ok else 'h', n), desc="owner name following a chain of %d pointers laid out inside TXT data" % n)
        p.question([('key', 'q0'), 1, 0])
        # TXT rdata: one chunk holding n-1 pointers: k-th pointer points to the previous one; first points to q0
        def rd(pk, n=n):
            pk.c(2 * (n - 1))
            prev = pk.labels['q0']
            for k in range(n - 1):
                here = pk.pos()
                pk.c(0xc0 | (prev >> 8), prev & 0xff)
                prev = here
            pk.labels['last'] = prev
        p.rr(1, [('ptr', 'q0')], T_TXT, rd)
        p.rr(1, [('ptr', 'last')], T_A, rd_a)
        p.accept = ok
        reg(p, 'valid' if ok else 'hostile', 'long', 'chain16')


def rust_cell(c, i=0, concrete_labels=False, sym_flags=False):
    k = c[0]
    if k == 'mask' and not sym_flags:
        # the solver's constant propagation does not see through (x & 0x7f) | 0x80: a symbolic
        # QR-carrying byte makes every "is this a response" test symbolic. Concrete here (QR + RD);
        # the other 7 bits are symbolic only in build_fl (header harnesses).
        return "0x%02x" % (c[2] | 0x01)
    if k == 'c':
        return "0x%02x" % c[1]
    if k == 'any':
        return "s.u8()"
    if k in ('lab', 'alpha') and concrete_labels:
        return "b'%s'" % chr((ord('a') if i % 3 else ord('A')) + (i * 7) % 26)
    if k == 'lab':
        return "lab(s)"
    if k == 'alpha':
        return "alpha(s)"
    if k == 'mask':
        return "((s.u8() & 0x%02x) | 0x%02x)" % ((~c[1]) & 0xff, c[2])
    raise ValueError(c)


def concrete_label_char(i):
    return (ord('a') if i % 3 else ord('A')) + (i * 7) % 26


def concrete_bytes(pk):
    """the packet as built by build_cl with every symbolic non-label byte set to 0"""
    out = []
    for i, c in enumerate(pk.cells):
        if c[0] == 'c':
            out.append(c[1])
        elif c[0] in ('lab', 'alpha'):
            out.append(concrete_label_char(i))
        elif c[0] == 'mask':
            out.append(c[2] | 0x01)
        else:
            out.append(0)
    return bytes(out)


def expand_name(b, off):
    labels = []
    g = 0
    while g < 300:
        g += 1
        l = b[off]
        if l >= 0xc0:
            off = ((l & 0x3f) << 8) | b[off + 1]
            continue
        if l == 0:
            break
        labels.append(bytes(b[off + 1:off + 1 + l]))
        off += l + 1
    return labels


def wire(labels):
    return b"".join(bytes([len(l)]) + l for l in labels) + b"\x00"


def swapcase(bs):
    return bytes((c ^ 0x20) if (65 <= c <= 90 or 97 <= c <= 122) else c for c in bs)


RN = []  # rename cases


def build_rename_cases():
    byname = {p.name: p for p in SK}
    tgt_short = wire([b"n", b"t"])
    tgt_long = wire([b"renamed", b"target", b"zone"])
    def case(name, sk, source, target, suffix, tier, what):
        RN.append(dict(name=name, sk=sk, source=source, target=target, suffix=suffix, tier=tier, what=what))
    for skn, tier in (('r_mx_soa', 'quick'), ('r_cname_chain', 'quick'), ('r_ns_add_optlast', 'quick'), ('r_optmid', 'quick'),
                      ('r_nocomp2', 'rotate'), ('r_nocomp_soa', 'rotate'), ('r_a_aaaa', 'rotate'), ('q_plain', 'rotate'),
                      ('r_ptr_ptr', 'rotate'), ('r_dname_txt_priv', 'rotate'), ('r_optfirst', 'rotate'), ('r_all_sections', 'rotate')):
        pk = byname[skn]
        b = concrete_bytes(pk)
        q = expand_name(b, 12)
        if len(q) < 2:
            continue
        full = wire(q)
        suf = wire(q[1:])
        t2 = 'quick' if tier == 'quick' else 'rotate'
        case("%s_exact" % skn, skn, swapcase(full), tgt_long, False, 'rotate', "exact match of the question name (source in swapped case), longer target")
        case("%s_sfx_long" % skn, skn, swapcase(suf), tgt_long, True, t2, "suffix match on the last %d labels (source in swapped case), longer target" % (len(q) - 1))
        case("%s_sfx_short" % skn, skn, suf, tgt_short, True, 'rotate', "suffix match, shorter target")
        case("%s_identity" % skn, skn, suf, suf, True, 'rotate', "renaming a suffix to itself")
        # near miss: source's first label is the tail of a real label (not on a label boundary)
        if len(q[0]) >= 2:
            near = wire([q[0][1:]] + q[1:])
            case("%s_nearmiss" % skn, skn, near, tgt_long, True, 'rotate' if tier != 'quick' or skn != 'r_mx_soa' else 'quick', "partial-label near miss: the source starts in the middle of a label")
        case("%s_exact_sfxname" % skn, skn, suf, tgt_short, False, 'rotate', "exact mode with a source that is only a suffix of most names")
    # names that differ from the source only in bit 5 of a non-letter must not match
    case("r_nocomp_punct_exact", 'r_nocomp_punct', wire([b"a{b", b"cc"]), tgt_long, False, 'quick', "exact match on a name that has a near twin differing in bit 5 of a non-letter ('{' vs '[')")
    case("r_nocomp_punct_sfx", 'r_nocomp_punct', wire([b"x`", b"cc"]), tgt_short, True, 'rotate', "suffix match on 'x`.cc' with a near twin 'x@.cc' in the packet")
    # overflow: a 253-byte name + a target longer than the source
    pk = byname['r_name255_via_ptr']
    b = concrete_bytes(pk)
    q = expand_name(b, 12)
    case("r_name255_via_ptr_overflow", 'r_name255_via_ptr', wire(q[-1:]), wire([q[-1] + b"xx"]), True, 'thorough', "suffix rename that makes a 255-byte name 257 bytes long: must fail")
    case("r_name255_via_ptr_256", 'r_name255_via_ptr', wire(q[-1:]), wire([q[-1] + b"x"]), True, 'quick', "suffix rename that makes a 255-byte name exactly 256 bytes long: must fail")
    case("r_name255_via_ptr_fits", 'r_name255_via_ptr', wire(q[-1:]), wire([q[-1][:-1]]), True, 'thorough', "suffix rename that shortens maximal names by one byte")


def emit_rename():
    out = ["// @generated by gen/skeletons.py - do not edit\nuse crate::p_rename::RnCase;\nuse crate::skel_gen;\n\n"]
    for c in RN:
        nm = "Rn" + "".join(x.capitalize() for x in c['name'].split("_"))
        c['type'] = nm
        out.append("/// %s on skeleton %s\npub struct %s;\nimpl RnCase for %s {\n    type K = skel_gen::%s;\n" % (c['what'], c['sk'], nm, nm, camel(c['sk'])))
        out.append("    const SOURCE: &'static [u8] = &[%s];\n" % ", ".join(str(x) for x in c['source']))
        out.append("    const TARGET: &'static [u8] = &[%s];\n" % ", ".join(str(x) for x in c['target']))
        out.append("    const SUFFIX: bool = %s;\n}\n\n" % ("true" if c['suffix'] else "false"))
    open(os.path.join(VERIF, "harness/src/rn_gen.rs"), "w").write("".join(out))


def camel(n):
    return "Sk" + "".join(x.capitalize() for x in n.split("_"))


def emit():
    out = []
    out.append("// @generated by gen/skeletons.py - do not edit\n")
    out.append("use crate::skel::*;\nuse crate::src::*;\n\n")
    for p in SK:
        n = len(p.cells)
        nsym = sum(1 for c in p.cells if c[0] != 'c')
        out.append("/// %s\n/// %d bytes, %d symbolic\n" % (p.desc.replace("\n", " "), n, nsym))
        out.append("pub struct %s;\n" % camel(p.name))
        out.append("impl Skel for %s {\n" % camel(p.name))
        out.append("    const NAME: &'static str = \"%s\";\n" % p.name)
        out.append("    const LEN: usize = %d;\n" % n)
        out.append("    const ACCEPT: bool = %s;\n" % ("true" if p.accept else "false"))
        if p.accept:
            recs = ", ".join("SkRec { start: %d, name_end: %d, rtype: %d, rdlen: %d, next: %d, section: %d }" % (
                r['start'], r['name_end'], r['rtype'] if r['rtype'] >= 0 else 0, r['rdlen'], r['next'], r['section']) for r in p.recs)
            out.append("    const RECS: &'static [SkRec] = &[%s];\n" % recs)
            if p.opt:
                out.append("    const EDNS: Option<(usize, usize, usize)> = Some((%d, %d, %d));\n" % (p.opt[0], p.opt[1], len(p.opt[2])))
                out.append("    const OPTS: &'static [(usize, usize)] = &[%s];\n" % ", ".join("(%d, %d)" % o for o in p.opt[2]))
            else:
                out.append("    const EDNS: Option<(usize, usize, usize)> = None;\n    const OPTS: &'static [(usize, usize)] = &[];\n")
        else:
            out.append("    const RECS: &'static [SkRec] = &[];\n    const EDNS: Option<(usize, usize, usize)> = None;\n    const OPTS: &'static [(usize, usize)] = &[];\n")
        out.append("    fn build<S: Src>(s: &mut S) -> Vec<u8> {\n")
        out.append("        let p: [u8; %d] = [\n" % n)
        for i in range(0, n, 12):
            out.append("            " + ", ".join(rust_cell(c) for c in p.cells[i:i + 12]) + ",\n")
        out.append("        ];\n        p.to_vec()\n    }\n")
        out.append("    fn build_fl<S: Src>(s: &mut S) -> Vec<u8> {\n")
        out.append("        let p: [u8; %d] = [\n" % n)
        for i in range(0, n, 12):
            out.append("            " + ", ".join(rust_cell(c, i + j, False, True) for j, c in enumerate(p.cells[i:i + 12])) + ",\n")
        out.append("        ];\n        p.to_vec()\n    }\n")
        out.append("    fn build_cl<S: Src>(s: &mut S) -> Vec<u8> {\n")
        out.append("        let p: [u8; %d] = [\n" % n)
        for i in range(0, n, 12):
            out.append("            " + ", ".join(rust_cell(c, i + j, True) for j, c in enumerate(p.cells[i:i + 12])) + ",\n")
        out.append("        ];\n        p.to_vec()\n    }\n}\n\n")
    open(os.path.join(VERIF, "harness/src/skel_gen.rs"), "w").write("".join(out))


# --------------------------------------------------------------------------------------
# harness families: (prefix, body path, tag filter, properties, tier fn, extra)
def families():
    fam = []
    byname = {p.name: p for p in SK}

    def add(prefix, body, pk, props, tier, est, timeout, bound, funcs, assume=(), unwind=None, fs=None):
        fam.append(dict(name="%s_%s" % (prefix, pk.name), body="%s::<_, skel_gen::%s>" % (body, camel(pk.name)),
                        props=props, tier=tier, est=est, timeout=timeout,
                        bound=bound + " | skeleton %s (%d bytes, %d symbolic): %s" % (
                            pk.name, len(pk.cells), sum(1 for c in pk.cells if c[0] != 'c'), pk.desc),
                        funcs=funcs, assume=list(assume), unwind=unwind or (len(pk.cells) + 10),
                        fs=fs or max(300, len(pk.cells) + 40)))

    quick_parse = {'q_plain', 'q_opt2', 'q_hdrptr', 'r_a_aaaa', 'r_cname_chain', 'r_optmid', 'r_mx_soa', 'r_dname_txt_priv',
                   'h_selfptr', 'h_ptr_root', 'h_trailing', 'h_count_plus', 'h_a_rdlen5', 'h_trunc_rrhdr', 'h_ctrl_char',
                   'h_cycle2', 'h_mx_rdlen2', 'h_soa_short', 'h_dname_ptr', 'h_opt_overrun', 'h_two_opts', 'h_opt_in_authority',
                   'h_query_with_answers', 'h_qd2', 'v_dname_ctrl', 'r_chain16', 'h_chain17', 'h_opt_rdlen_plus1', 'h_opt_rdlen_plus10',
                   'h_opt2_rdlen_plus4', 'h_a_rdlen16', 'h_aaaa_rdlen4'}
    for p in SK:
        long = 'long' in p.tags
        tier = 'quick' if p.name in quick_parse else ('thorough' if long else 'rotate')
        if 'chain16' in p.tags and p.name not in quick_parse:
            tier = 'rotate'
        add("parse", "p_parse::parse_verdict", p, ["C01", "C02", "C18"], tier, 40 if not long else 200, 900 if not long else 2400,
            "DNSSector::parse on one skeleton x all values of its symbolic non-label bytes (label characters concrete, error paths explored)",
            ["DNSSector::parse", "DNSSector::parse_rr", "DNSSector::parse_opt", "Compress::check_compressed_name", "DNSSector::check_uncompressed_name"])
    # one structural byte symbolic (all 256 values): positions chosen per skeleton
    def symbytes(pk):
        out = []
        q = pk.recs[0]
        out.append((12, 'first label length of the question'))
        out.append((q['name_end'] - 1, 'root label of the question name'))
        out.append((q['name_end'] + 3, 'low byte of the question class'))
        out.append((5, 'low byte of qdcount'))
        out.append((7, 'low byte of ancount'))
        out.append((11, 'low byte of arcount'))
        for i, r in enumerate(pk.recs[1:], 1):
            if pk.cells[r['start']][0] == 'c' and pk.cells[r['start']][1] >= 0xc0:
                out.append((r['start'] + 1, 'low byte of the owner pointer of record %d' % i))
            elif pk.cells[r['start']][0] == 'c' and pk.cells[r['start']][1] != 0:
                out.append((r['start'], 'first label length of the owner of record %d' % i))
            out.append((r['name_end'] + 1, 'low byte of the type of record %d' % i))
            out.append((r['name_end'] + 9, 'low byte of the data length of record %d' % i))
        if pk.opt and pk.opt[2]:
            o = pk.opt[2][0]
            out.append((o[0] + 3, 'low byte of the first option length'))
        return out
    # measured: tractable (8-140 s) are the count bytes, the OPT/option length bytes and the data
    # length of the last record; a symbolic label length, pointer byte or type byte of an early
    # record does not finish in 20 min (every later offset becomes symbolic) and is not generated.
    SYMB_OK = {'q_opt2': (7, 11, 37, 41), 'r_a_aaaa': (7, 11, 57), 'r_cname_chain': (7, 11, 57), 'r_mx_soa': (11,), 'r_optmid': (11,)}
    for skn in ('q_opt2', 'r_a_aaaa', 'r_cname_chain', 'r_mx_soa', 'r_optmid'):
        pk = byname[skn]
        for k, (pos, what) in enumerate(symbytes(pk)):
            if pos not in SYMB_OK[skn]:
                continue
            fam.append(dict(name="symb_%s_%d" % (skn, pos), body="p_parse::parse_symbyte::<_, skel_gen::%s, %d>" % (camel(skn), pos),
                            props=["C01", "C02", "C18"], tier='quick' if skn in ('q_opt2', 'r_a_aaaa') else 'rotate', est=60, timeout=900, mem_gb=24,
                            bound="DNSSector::parse vs the policy oracle with byte %d (%s) taking all 256 values | skeleton %s (%d bytes): %s; label characters concrete, other payload symbolic, error paths explored" % (pos, what, pk.name, len(pk.cells), pk.desc),
                            funcs=["DNSSector::parse", "DNSSector::parse_rr", "DNSSector::parse_opt", "Compress::check_compressed_name", "DNSSector::check_uncompressed_name"],
                            unwind=len(pk.cells) + 12, fs=max(300, len(pk.cells) + 40)))

    quick_walk = {'r_far_ptr', 'q_opt2', 'q_hdrptr', 'r_cname_chain', 'r_ns_add_optlast', 'r_optfirst', 'r_optmid', 'r_mx_soa', 'r_dname_txt_priv', 'r_ptr_ptr'}
    for p in SK:
        if not p.accept or 'edge' in p.tags:
            continue
        long = 'long' in p.tags
        tier = 'quick' if p.name in quick_walk else ('thorough' if long else 'rotate')
        passes = [(0, 'q')]
        for sec in (1, 2, 3):
            if any(r['section'] == sec and r['rtype'] != T_OPT for r in p.recs):
                passes.append((sec, ['', 'an', 'ns', 'ar'][sec]))
        if p.opt:
            passes.append((4, 'aropt'))
            passes.append((5, 'edns'))
        for ps, pn in passes:
            fam.append(dict(name="walk_%s_%s" % (pn, p.name), body="p_iter::walk::<_, skel_gen::%s, %d>" % (camel(p.name), ps),
                            props=["C03"], tier=tier, est=60 if not long else 400, timeout=900 if not long else 3000,
                            bound="pass '%s' of the iterators and accessors on one accepted skeleton x all values of its symbolic bytes (ids, flags, classes, TTLs, addresses, opaque data, option codes/data; label characters concrete) | skeleton %s (%d bytes, %d symbolic): %s" % (
                                pn, p.name, len(p.cells), sum(1 for c in p.cells if c[0] != 'c'), p.desc),
                            funcs=["DNSSector::parse", "QuestionIterator::next", "ResponseIterator::next", "ResponseIterator::next_including_opt", "EdnsIterator::next",
                                   "TypedIterable::{name,copy_raw_name,rr_type,rr_class,current_section}", "RdataIterable::{rr_ttl,rr_rdlen,rr_rd,rr_ip}",
                                   "Compress::raw_name_to_str", "Compress::copy_uncompressed_name", "RRIterator::skip_name"],
                            assume=["parse errors are reported as failed checks and not explored further (the skeleton is well-formed by construction)"],
                            unwind=len(p.cells) + 10, fs=max(300, len(p.cells) + 40)))
    quick_sum = {'q_plain', 'q_opt0', 'q_opt2', 'q_hdrptr', 'q_root', 'r_a_aaaa', 'r_optmid', 'r_ns_add_optlast'}
    for p in SK:
        if not p.accept or 'edge' in p.tags or 'long' in p.tags:
            continue
        tier = 'quick' if p.name in quick_sum else 'rotate'
        add("sum", "p_summary::header_edns", p, ["C04"], tier, 30, 600,
            "tid/opcode/rcode/is_response/flags/dnssec/ext_rcode/edns_version/edns_count/max_payload on one accepted skeleton x all ids, all 15 non-QR flag bits, all OPT fields, all payload",
            ["DNSSector::parse", "DNSSector::parse_opt", "ParsedPacket::{tid,opcode,rcode,is_response,flags,dnssec,max_payload}"],
            assume=["parse errors are reported as failed checks and not explored further (the skeleton is well-formed by construction)"])
        for order in (0, 1):
            fam.append(dict(name="quest%d_%s" % (order, p.name), body="p_summary::question::<_, skel_gen::%s, %d>" % (camel(p.name), order),
                            props=["C04"], tier=tier if order == 0 or p.name in ('q_hdrptr', 'r_a_aaaa') else 'rotate', est=40, timeout=600,
                            bound="question()/qtype_qclass() and question_raw0()/question_raw() in call order %d (0: text first / cache cold, 1: raw first / cache warm) | skeleton %s: %s; label characters concrete, type/class/payload symbolic" % (order, p.name, p.desc),
                            funcs=["ParsedPacket::question", "ParsedPacket::question_raw0", "ParsedPacket::question_raw", "ParsedPacket::qtype_qclass", "Compress::copy_uncompressed_name", "Compress::raw_name_to_str", "Compress::raw_name_len"],
                            assume=["parse errors are reported as failed checks"], unwind=len(p.cells) + 10, fs=max(300, len(p.cells) + 40)))
    quick_unc = {'q_hdrptr', 'r_cname_chain', 'r_mx_soa', 'r_optmid', 'r_ptr_ptr', 'r_dname_txt_priv'}
    for p in SK:
        if not p.accept or 'edge' in p.tags or 'long' in p.tags:
            continue
        tier = 'quick' if p.name in quick_unc else 'rotate'
        nrec = len(p.recs)
        modes = [(0, 'content', tier), (1, 'stable', 'rotate' if p.name not in ('r_mx_soa',) else tier)]
        for i in range(nrec + 1):
            modes.append((2 + i, 'b%d' % i, tier if (p.name in ('r_mx_soa', 'r_optmid') and i in (1, nrec)) else 'thorough'))
        for m, mn, t in modes:
            fam.append(dict(name="unc_%s_%s" % (mn, p.name), body="p_uncompress::uncompress::<_, skel_gen::%s, %d>" % (camel(p.name), m),
                            props=["C05"], tier=t, est=90, timeout=900,
                            bound="Compress::uncompress, aspect '%s' (content: identical decoded records, pointer-free; stable: output accepted and second decompression identical; bN: boundary N carried across) | skeleton %s (%d bytes): %s; all label characters (within the parser's alphabet) and payload symbolic" % (mn, p.name, len(p.cells), p.desc),
                            funcs=["Compress::uncompress", "Compress::uncompress_with_previous_offset", "Compress::uncompress_rdata", "Compress::copy_uncompressed_name", "DNSSector::parse", "iterators"],
                            assume=["library errors are reported as failed checks and not explored further (every operation must succeed on an accepted packet)"],
                            unwind=2 * len(p.cells) + 10, fs=max(300, 2 * len(p.cells) + 40)))
    byname = {p.name: p for p in SK}
    for c in RN:
        pk = byname[c['sk']]
        for m, mn in ((0, 'fn'), (1, 'obj')):
            t = c['tier'] if m == 0 else 'thorough'
            fam.append(dict(name="rn_%s_%s" % (mn, c['name']), body="p_rename::rename::<_, rn_gen::%s, %d>" % (c['type'], m),
                            props=["C07"] if m == 0 else ["C07", "C08"], tier=t, est=200, timeout=(600 if m == 1 else (1500 if 'name255' not in c['name'] else 3000)), mem_gb=40,
                            bound="%s: %s | source %s target %s %s | skeleton %s (%d bytes): %s; label characters concrete, all other payload symbolic" % (
                                "Renamer::rename_with_raw_names" if m == 0 else "ParsedPacket::rename_with_raw_names (+ object view vs fresh parse)",
                                c['what'], c['source'].hex(), c['target'].hex(), "suffix mode" if c['suffix'] else "exact mode", pk.name, len(pk.cells), pk.desc),
                            funcs=["Renamer::rename_with_raw_names", "Renamer::replace_raw", "Renamer::copy_with_replaced_name", "Compress::copy_compressed_name_with_base_offset", "SuffixDict::insert", "ParsedPacket::rename_with_raw_names", "ParsedPacket::copy_raw_edns_section", "DNSSector::parse"],
                            assume=["library errors are reported as failed checks unless the oracle says the rename must fail"],
                            unwind=max(2 * len(pk.cells) + 10, 80), fs=max(300, 3 * len(pk.cells))))
    # ---------------- mutations (C08 C09 C10 C11)
    MUT_FUNCS = ["TypedIterable::set_raw_name", "TypedIterable::resize_rr", "TypedIterable::delete", "TypedIterable::current_section", "RRIterator::recompute",
                 "ParsedPacket::insert_rr", "ParsedPacket::rrcount_inc", "ParsedPacket::rrcount_dec", "ParsedPacket::recompute", "ParsedPacket::question_raw0",
                 "RdataIterable::set_rr_ttl", "RdataIterable::set_rr_ip", "DNSIterable::uncompress", "Compress::uncompress_with_previous_offset", "DNSSector::parse",
                 "ResponseIterator::next", "QuestionIterator::next"]
    SECN = {0: 'q', 1: 'an', 2: 'ns', 3: 'ar'}

    def mut(name, body, sk, props, tier, what, est=200, timeout=1500):
        pk = byname[sk]
        fam.append(dict(name=name, body=body, props=props, tier=tier, est=est, timeout=timeout, mem_gb=32,
                        bound="%s | skeleton %s (%d bytes): %s; label characters symbolic within the parser's alphabet unless stated, arguments and all other payload symbolic" % (what, pk.name, len(pk.cells), pk.desc),
                        funcs=MUT_FUNCS, assume=["library errors are reported as failed checks for operations that must succeed; error paths are explored for operations that must fail"],
                        unwind=max(2 * len(pk.cells) + 20, 90), fs=max(300, 3 * len(pk.cells))))

    for sk, sec, idx, tier in (('r_a_aaaa', 1, 0, 'quick'), ('r_three_a', 1, 1, 'rotate'), ('r_all_sections', 2, 0, 'rotate'), ('r_all_sections', 3, 0, 'quick'),
                               ('r_optmid', 3, 1, 'rotate'), ('r_mx_soa', 1, 0, 'rotate')):
        mut("ttl_%s_%s%d" % (sk, SECN[sec], idx), "p_mutate::set_ttl::<_, skel_gen::%s, %d, %d>" % (camel(sk), sec, idx), sk, ["C08", "C09"], tier,
            "set_rr_ttl(any u32) on record %d of section %s: only the TTL field changes; view == fresh parse" % (idx, SECN[sec]), est=100)
    for sk, sec, idx, tier in (('r_a_aaaa', 1, 0, 'quick'), ('r_a_aaaa', 1, 1, 'quick'), ('r_all_sections', 2, 0, 'rotate'), ('r_optmid', 3, 1, 'rotate')):
        mut("ip_%s_%s%d" % (sk, SECN[sec], idx), "p_mutate::set_ip::<_, skel_gen::%s, %d, %d>" % (camel(sk), sec, idx), sk, ["C08", "C09", "C10"], tier,
            "set_rr_ip(any V4 or V6 address) on record %d of section %s: address bytes only; wrong family / non-address record refused without change" % (idx, SECN[sec]), est=100)
    NAMES = (('short', 'Nm<1, 0, false>'), ('equal', 'Nm<5, 3, false>'), ('long', 'Nm<9, 7, false>'))
    for sk, sec, idx, tiers in (('r_a_aaaa', 1, 0, ('quick', 'rotate', 'quick')), ('r_a_aaaa', 1, 1, ('rotate', 'rotate', 'rotate')),
                                ('r_three_a', 1, 1, ('rotate', 'rotate', 'quick')), ('r_three_a', 1, 2, ('rotate', 'rotate', 'rotate')),
                                ('r_all_sections', 2, 0, ('rotate', 'rotate', 'rotate')), ('r_all_sections', 3, 0, ('quick', 'rotate', 'quick')),
                                ('r_optmid', 3, 0, ('rotate', 'rotate', 'quick')), ('r_optmid', 3, 1, ('rotate', 'rotate', 'rotate')),
                                ('q_plain', 0, 0, ('rotate', 'rotate', 'quick')), ('r_a_aaaa', 0, 0, ('quick', 'rotate', 'rotate')),
                                ('r_nocomp', 1, 0, ('rotate', 'rotate', 'rotate')), ('r_cname_chain', 1, 0, ('rotate', 'rotate', 'rotate'))):
        for (nn, nt), tier in zip(NAMES, tiers):
            mut("name_%s_%s_%s%d" % (nn, sk, SECN[sec], idx), "p_mutate::set_name::<_, skel_gen::%s, p_mutate::%s, %d, %d>" % (camel(sk), nt, sec, idx), sk, ["C08", "C09"], tier,
                "set_raw_name(%s new name, label bytes symbolic within the parser's alphabet) on record %d of section %s: owner replaced, nothing else; cursor still designates the record; view == fresh parse" % (nn, idx, SECN[sec]))
    for bad, bn in ((0, 'label64'), (1, 'len256'), (2, 'truncated'), (3, 'pointer'), (4, 'empty'), (5, 'dot'), (6, 'backslash'), (7, 'ctrl1f'), (8, 'del7f'), (9, 'nul')):
        mut("namebad_%s_r_a_aaaa_an0" % bn, "p_mutate::set_name_bad::<_, skel_gen::SkRAAaaa, 1, 0, %d>" % bad, 'r_a_aaaa', ["C10", "C08"] if bad >= 5 else ["C10"], 'quick' if bad in (0, 3, 5, 7) else 'rotate',
            "set_raw_name with an ill-formed name (%s) on answer 0: refused; same decoded message; view == fresh parse (label characters concrete)" % bn)
    for sk, sec, idx, tier in (('r_a_aaaa', 1, 0, 'quick'), ('r_a_aaaa', 1, 1, 'rotate'), ('r_three_a', 1, 1, 'quick'), ('r_all_sections', 1, 0, 'quick'),
                               ('r_all_sections', 2, 0, 'rotate'), ('r_all_sections', 3, 0, 'rotate'), ('r_optmid', 3, 0, 'quick'), ('r_optmid', 3, 1, 'rotate'),
                               ('q_plain', 0, 0, 'rotate'), ('r_a_aaaa', 0, 0, 'rotate'), ('r_cname_chain', 1, 0, 'rotate')):
        mut("del_%s_%s%d" % (sk, SECN[sec], idx), "p_mutate::delete::<_, skel_gen::%s, %d, %d>" % (camel(sk), sec, idx), sk, ["C08", "C09", "C11"], tier,
            "delete record %d of section %s, delete again through the tombstone (void record, no change), advance: only that record and its count go; view == fresh parse" % (idx, SECN[sec]))
    for sk, sec, tier in (('r_a_aaaa', 1, 'quick'), ('r_a_aaaa', 2, 'rotate'), ('r_a_aaaa', 3, 'rotate'), ('r_all_sections', 1, 'rotate'), ('r_all_sections', 2, 'quick'),
                          ('r_all_sections', 3, 'rotate'), ('r_optmid', 2, 'quick'), ('r_optmid', 1, 'quick'), ('q_opt2', 3, 'rotate'), ('r_nocomp', 1, 'rotate')):
        mut("ins_%s_%s" % (sk, SECN[sec]), "p_mutate::insert::<_, skel_gen::%s, %d>" % (camel(sk), sec), sk, ["C08", "C09"], tier,
            "insert_rr(A record, any TTL and address) into section %s: appended at the end of the section, nothing else changes; view == fresh parse" % SECN[sec])
    mut("ins_second_question_r_a_aaaa", "p_mutate::insert::<_, skel_gen::SkRAAaaa, 0>", 'r_a_aaaa', ["C10"], 'quick',
        "insert_rr of a second question: refused; same decoded message; view == fresh parse")
    mut("ins_second_question_q_plain", "p_mutate::insert::<_, skel_gen::SkQPlain, 0>", 'q_plain', ["C10"], 'rotate',
        "insert_rr of a second question into a query: refused; same decoded message; view == fresh parse")
    for sk, tier in (('q_plain', 'quick'), ('r_a_aaaa', 'rotate')):
        mut("cacheq_%s" % sk, "p_mutate::cache_then_set_question::<_, skel_gen::%s, p_mutate::Nm<3, 0, false>>" % camel(sk), sk, ["C08"], tier,
            "program: set_raw_name on the question (decompresses), question_raw0() (fills the cache), set_raw_name on the question again (equal length): the cached question follows the change; view == fresh parse")
    for sk, sec, idx, tier in (('r_a_aaaa', 1, 0, 'quick'), ('r_a_aaaa', 1, 1, 'rotate'), ('r_three_a', 1, 1, 'rotate'), ('r_all_sections', 3, 0, 'rotate'), ('r_cname_chain', 1, 1, 'rotate')):
        mut("itunc_%s_%s%d" % (sk, SECN[sec], idx), "p_mutate::it_uncompress::<_, skel_gen::%s, %d, %d>" % (camel(sk), sec, idx), sk, ["C08"], tier,
            "DNSIterable::uncompress() through the cursor on record %d of section %s: the cursor still designates and reads that record; view == fresh parse" % (idx, SECN[sec]))
    for sk, tier in (('r_all_sections', 'quick'), ('q_opt2', 'rotate')):
        mut("hdrops_%s" % sk, "p_mutate::header_ops::<_, skel_gen::%s, false>" % camel(sk), sk, ["C08"], tier,
            "set_tid/set_flags/set_rcode/set_opcode with any arguments: only id and flags change; view == fresh parse", est=100)
    mut("recompute_r_all_sections", "p_mutate::header_ops::<_, skel_gen::SkRAllSections, true>", 'r_all_sections', ["C08"], 'quick',
        "header setters then ParsedPacket::recompute() on a packet that still holds compression pointers; view == fresh parse, flag 'may contain pointers' consistent", est=100)
    mut("recompute_r_nocomp", "p_mutate::header_ops::<_, skel_gen::SkRNocomp, true>", 'r_nocomp', ["C08"], 'rotate',
        "header setters then ParsedPacket::recompute() on a pointer-free packet; view == fresh parse", est=100)
    for sk, sec, masks, qmasks in (('r_three_a', 1, range(8), (2, 5, 7)), ('r_a_aaaa', 1, (1, 2, 3), (3,)), ('r_optmid', 3, range(4), (1, 3)),
                                   ('r_all_sections', 3, (0, 1), (1,)), ('r_all_sections', 2, (1,), ())):
        for m in masks:
            mut("delwalk_%s_%s_m%d" % (sk, SECN[sec], m), "p_mutate::delete_walk::<_, skel_gen::%s, %d, %d>" % (camel(sk), sec, m), sk, ["C11", "C08"] if m in qmasks else ["C11"],
                'quick' if m in qmasks else 'rotate',
                "walk section %s deleting the records selected by mask %s (documented protocol: delete, second delete must be void, next): terminates within n(n+1)+2 steps, survivors exact and in order; view == fresh parse" % (SECN[sec], bin(m)), est=300, timeout=1800)

    for sk in ('r_a_aaaa', 'r_mx_soa', 'r_optmid'):
        mut("renobj_%s" % sk, "p_mutate::rename_view::<_, skel_gen::%s>" % camel(sk), sk, ["C08"], 'rotate',
            "ParsedPacket::rename_with_raw_names(suffix = last label of the question name -> 'new.tg'): the object's view equals a fresh parse of its bytes (label characters concrete)")
    for sk in ('r_ns_add_optlast', 'r_a_aaaa', 'q_opt2'):
        mut("reinsq_%s" % sk, "p_mutate::reinsert_question::<_, skel_gen::%s>" % camel(sk), sk, ["C08", "C09"], 'rotate',
            "program: delete the question through its cursor, then insert_rr(Section::Question, new question): the question is first again, nothing else moves; view == fresh parse")
    for sk in ('r_a_aaaa', 'r_mx_soa'):
        mut("renobj2_%s" % sk, "p_mutate::rename_after_uncompress::<_, skel_gen::%s>" % camel(sk), sk, ["C08"], 'rotate',
            "program: in-place decompression through a cursor (maybe_compressed becomes false), then ParsedPacket::rename_with_raw_names: view == fresh parse and the pointer flag is consistent (label characters concrete)")
    for sk in ('q_opt2', 'r_optmid', 'r_optfirst', 'r_ns_add_optlast', 'q_opt0'):
        mut("delopt_%s" % sk, "p_mutate::delete_opt::<_, skel_gen::%s>" % camel(sk), sk, ["C08", "C09", "C11"], 'rotate',
            "delete the OPT pseudo-record reached with the OPT-including walk of the additional section, delete again through the tombstone: only OPT and its count go; the EDNS view (offset, option count, version, flags, extended rcode, payload size) == fresh parse, no EDNS option walk is offered")
    QUICK_MUT = {
        'delopt_q_opt2', 'delopt_r_optmid',
        'ttl_r_all_sections_ar0', 'ip_r_a_aaaa_an0', 'ip_r_a_aaaa_an1',
        'name_short_r_all_sections_ar0', 'name_long_r_a_aaaa_an0', 'name_long_r_optmid_ar0', 'name_short_r_a_aaaa_q0', 'name_equal_r_three_a_an1', 'name_equal_r_a_aaaa_q0',
        'reinsq_r_ns_add_optlast', 'renobj2_r_a_aaaa',
        'namebad_label64_r_a_aaaa_an0', 'namebad_pointer_r_a_aaaa_an0', 'namebad_dot_r_a_aaaa_an0', 'namebad_ctrl1f_r_a_aaaa_an0',
        'del_r_a_aaaa_an0', 'del_r_optmid_ar0', 'del_r_all_sections_an0',
        'ins_r_a_aaaa_an', 'ins_r_all_sections_ns', 'ins_r_optmid_an', 'ins_second_question_r_a_aaaa',
        'cacheq_q_plain', 'itunc_r_a_aaaa_an1', 'hdrops_r_all_sections', 'recompute_r_all_sections', 'renobj_r_a_aaaa',
        'delwalk_r_three_a_an_m5', 'delwalk_r_optmid_ar_m1', 'delwalk_r_a_aaaa_an_m3',
    }
    MUT_PREFIX = ('ttl_', 'ip_', 'name_', 'namebad_', 'del_', 'ins_', 'cacheq_', 'itunc_', 'hdrops_', 'recompute_', 'delwalk_', 'renobj_', 'reinsq_', 'renobj2_', 'delopt_')
    for f in fam:
        if f['name'].startswith(MUT_PREFIX):
            f['tier'] = 'quick' if f['name'] in QUICK_MUT else 'rotate'
    missing = QUICK_MUT - {f['name'] for f in fam}
    assert not missing, missing

    for p in SK:
        if 'nocomp' not in p.tags:
            continue
        for m, mn in ((0, 'msg'), (1, 'rt')):
            fam.append(dict(name="cmp_%s_%s" % (mn, p.name), body="p_compress::compress::<_, skel_gen::%s, %d>" % (camel(p.name), m),
                            props=["C06"], tier='quick' if (m == 0 or p.name in ('r_nocomp2',)) else 'rotate', est=120, timeout=1200, mem_gb=40,
                            bound="Compress::compress, aspect '%s' (msg: accepted, not longer, same decoded message; rt: uncompress(compress(p)) equals p up to case) | pointer-free skeleton %s (%d bytes): %s; label characters concrete, all other payload symbolic" % (mn, p.name, len(p.cells), p.desc),
                            funcs=["Compress::compress", "Compress::compress_rdata", "Compress::copy_compressed_name_with_base_offset", "SuffixDict::insert", "SuffixDict::raw_names_eq_ignore_case", "Compress::raw_name_len_after_decompression", "DNSSector::parse", "Compress::uncompress"],
                            assume=["library errors are reported as failed checks and not explored further"],
                            unwind=2 * len(p.cells) + 10, fs=max(300, 2 * len(p.cells) + 40)))
    return fam


def emit_registry(fam):
    # quick-tier harnesses: grouped by set of properties (cargo features c01..c18) so that a build for
    # one property compiles only its own harnesses; thorough-tier ones additionally need feature
    # "thorough"; the seed-rotated pool ("rotate") is compiled only when selected for this run:
    # harness/build.rs reads VERIF_SELECT (names, or ALL) and emits the chosen entries.
    groups = {}
    rotate = []
    for f in fam:
        if f['tier'] == 'rotate':
            rotate.append(f)
            f['path'] = 'registry::gen::sel::proofs::'
            continue
        key = (tuple(sorted(f['props'])), f['tier'] == 'thorough')
        groups.setdefault(key, []).append(f)
    out = ["// @generated by gen/skeletons.py - do not edit\n"]
    mods = []
    for gi, (key, fs) in enumerate(sorted(groups.items())):
        props, thorough = key
        mod = "g%d" % gi
        cfg = "any(%s)" % ", ".join('feature = "%s"' % p.lower() for p in props)
        if thorough:
            cfg = 'all(feature = "thorough", %s)' % cfg
        mods.append((mod, cfg))
        out.append("#[cfg(%s)]\npub mod %s {\n    use super::*;\n    harnesses! {\n" % (cfg, mod))
        for f in fs:
            out.append("        #[kani::unwind(%d)] %s => %s;\n" % (f['unwind'], f['name'], f['body']))
            f['path'] = 'registry::gen::%s::proofs::' % mod
        out.append("    }\n}\n")
    out.append("pub mod sel {\n    use super::*;\n    include!(concat!(env!(\"OUT_DIR\"), \"/selected.rs\"));\n}\n")
    mods.append(("sel", "all()"))
    out.append("pub fn lookup(name: &str) -> Option<Body> {\n")
    for mod, cfg in mods:
        out.append("    #[cfg(%s)]\n    if let Some(b) = %s::lookup(name) { return Some(b); }\n" % (cfg, mod))
    out.append("    None\n}\npub fn lookup_sample(name: &str) -> Option<SampleBody> {\n")
    for mod, cfg in mods:
        out.append("    #[cfg(%s)]\n    if let Some(b) = %s::lookup_sample(name) { return Some(b); }\n" % (cfg, mod))
    out.append("    None\n}\npub fn names() -> Vec<&'static str> {\n    let mut v: Vec<&'static str> = Vec::new();\n")
    for mod, cfg in mods:
        out.append("    #[cfg(%s)]\n    v.extend_from_slice(%s::NAMES);\n" % (cfg, mod))
    out.append("    v\n}\n")
    open(os.path.join(VERIF, "harness/src/registry_gen.rs"), "w").write("".join(out))
    with open(os.path.join(VERIF, "harness/rotate_table.txt"), "w") as fh:
        for f in rotate:
            fh.write("%s|%d|%s\n" % (f['name'], f['unwind'], f['body']))
    js = {f['name']: {k: v for k, v in f.items() if k not in ('name', 'body')} for f in fam}
    json.dump(js, open(os.path.join(VERIF, "bin/harness_gen.json"), "w"), indent=1, sort_keys=True)


def main():
    build_valid()
    build_hostile()
    build_long()
    names = [p.name for p in SK]
    assert len(names) == len(set(names)), "duplicate skeleton names"
    emit()
    build_rename_cases()
    emit_rename()
    fam = families()
    emit_registry(fam)
    print("skeletons: %d (valid %d, hostile %d); generated harnesses: %d" % (
        len(SK), sum(1 for p in SK if p.accept), sum(1 for p in SK if not p.accept), len(fam)))


if __name__ == "__main__":
    main()
